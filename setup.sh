#!/bin/sh
# Offline setup: nothing is installed or downloaded; verify the interpreter, the
# repo's dependencies and the committed fixtures.
cd "$(dirname "$0")" || exit 2
/venv/bin/python - <<'PY' || exit 1
import sys, hashlib, os, ssl
sys.path.insert(0, "/repo/src"); sys.path.insert(0, ".")
import OpenSSL, cryptography, structlog, tomli_w  # noqa
import nauyaca  # noqa
from sim import fixtures as fx
for n in fx.SERVER_CERTS + fx.BAD_CERTS + fx.EC_CERTS + fx.CLIENT_CERTS + fx.EXPIRED_CERTS + fx.CLONE_CERTS + fx.CA_CERTS:
    assert os.path.exists(fx.crt(n)) and os.path.exists(fx.key(n)), n
    ssl.SSLContext(ssl.PROTOCOL_TLS_SERVER).load_cert_chain(fx.crt(n), fx.key(n))
print("setup ok: python", sys.version.split()[0], ssl.OPENSSL_VERSION)
PY
mkdir -p evidence replays
