"""The choice tape: the single source of nondeterminism of a simulated run.

Every decision a run takes (configuration, generated input, segmentation,
delay, fault, ordering) is one call ``ch.choose(label, n)`` returning an int in
``[0, n)``.  In *generate* mode values are drawn from ``random.Random(seed)``;
in *replay* mode they are read from a recorded list (reads past the end give
0).  By convention 0 is always the simplest choice (no fault, no cut, smallest
size, first alternative), which is what makes the generic tape shrinker in
``sim.shrink`` effective.

Nothing here reads a clock or touches global randomness.
"""

from __future__ import annotations

import random

MASK = (1 << 64) - 1


def splitmix64(x: int) -> int:
    x = (x + 0x9E3779B97F4A7C15) & MASK
    z = x
    z = ((z ^ (z >> 30)) * 0xBF58476D1CE4E5B9) & MASK
    z = ((z ^ (z >> 27)) * 0x94D049BB133111EB) & MASK
    return z ^ (z >> 31)


def derive_seed(*parts) -> int:
    """Mix ints/strings into one 64-bit seed, independent of PYTHONHASHSEED."""
    h = 0x1234567
    for p in parts:
        if isinstance(p, str):
            for b in p.encode():
                h = splitmix64(h ^ b)
        else:
            h = splitmix64(h ^ (int(p) & MASK))
    return h


class Chooser:
    __slots__ = ("rng", "tape", "labels", "pos", "replay", "nontrivial", "record_labels",
                 "forced")

    def __init__(self, seed: int | None = None, tape: list[int] | None = None,
                 record_labels: bool = False, forced: list[int] | None = None):
        # ``forced``: values for the first draws of a generated run (used for
        # systematic enumeration of a case index); they are recorded on the tape
        # like any other draw, so replay needs nothing special.
        self.forced = list(forced) if forced else None
        self.replay = tape is not None
        self.rng = random.Random(seed) if not self.replay else None
        self.tape: list[int] = list(tape) if tape is not None else []
        self.labels: list[str] = []
        self.pos = 0
        self.nontrivial = 0
        self.record_labels = record_labels

    # -- primitive ---------------------------------------------------------
    def choose(self, label: str, n: int, weights=None) -> int:
        """Integer in [0, n).  ``weights`` (len n) bias generation only."""
        if n <= 1:
            return 0
        if self.replay:
            if self.pos < len(self.tape):
                v = self.tape[self.pos] % n
                self.tape[self.pos] = v
            else:
                v = 0
                self.tape.append(0)
            self.pos += 1
        else:
            if self.forced is not None and self.pos < len(self.forced):
                v = self.forced[self.pos] % n
            elif weights is not None:
                v = self.rng.choices(range(n), weights=weights)[0]
            else:
                v = self.rng.randrange(n)
            self.tape.append(v)
            self.pos += 1
        if self.record_labels:
            self.labels.append(label)
        if v:
            self.nontrivial += 1
        return v

    # -- helpers -----------------------------------------------------------
    def chance(self, label: str, p: float) -> bool:
        """True with probability p (tape value 1), else False (0)."""
        if p <= 0:
            return False
        if self.replay:
            return bool(self.choose(label, 2))
        v = 1 if self.rng.random() < p else 0
        self.tape.append(v)
        self.pos += 1
        if self.record_labels:
            self.labels.append(label)
        if v:
            self.nontrivial += 1
        return bool(v)

    def pick(self, label: str, seq, weights=None):
        return seq[self.choose(label, len(seq), weights)]

    def int_in(self, label: str, lo: int, hi: int) -> int:
        """Integer in [lo, hi]; lo is the simplest."""
        if hi <= lo:
            return lo
        return lo + self.choose(label, hi - lo + 1)

    def biased_size(self, label: str, lo: int, hi: int, specials=()) -> int:
        """A size in [lo, hi]: half the mass on ``specials`` (clipped), rest
        log-uniform.  Encoded as one tape entry (offset from lo)."""
        if hi <= lo:
            return lo
        n = hi - lo + 1
        if self.replay:
            return lo + self.choose(label, n)
        sp = [s for s in specials if lo <= s <= hi]
        r = self.rng.random()
        if sp and r < 0.5:
            v = self.rng.choice(sp)
        elif r < 0.6:
            v = lo
        else:
            import math
            span = math.log(n)
            v = lo + int(math.exp(self.rng.random() * span)) - 1
            v = max(lo, min(hi, v))
        t = v - lo
        self.tape.append(t)
        self.pos += 1
        if self.record_labels:
            self.labels.append(label)
        if t:
            self.nontrivial += 1
        return v

    def bytes_(self, label: str, n: int, alphabet: bytes | None = None) -> bytes:
        """n pseudo-random bytes; costs ONE tape entry (a sub-seed) so that
        bulk content does not bloat the tape.  Sub-seed 0 gives b'a' * n."""
        if n <= 0:
            return b""
        s = self.choose(label, 1 << 30)
        if s == 0:
            return (alphabet[:1] if alphabet else b"a") * n
        r = random.Random(s)
        if alphabet:
            return bytes(r.choice(alphabet) for _ in range(n))
        return r.randbytes(n)
