"""Self-tests of the machinery.

determinism: for every claimed property, N run indices are executed in two
  fresh interpreters - one with PYTHONHASHSEED=0 in ascending order, one with a
  different PYTHONHASHSEED in descending order (so every run has a different
  predecessor in its process) - and the per-run (tape hash, event digest,
  schedule signature, violation keys) are compared.  Any difference is a hard
  failure of the machinery (exit 2).
"""

from __future__ import annotations

import hashlib
import json
import os
import subprocess
import sys

VERIF = os.path.dirname(os.path.dirname(os.path.abspath(__file__)))
PROPS = ["C01", "C03", "C04", "C06", "C07", "C10", "C11", "C12", "C13", "C14", "C15", "C16", "C18"]

CHILD = r"""
import sys, json, hashlib, os
sys.path.insert(0, %(verif)r)
from sim.world import prepare_process
prepare_process()
from sim.runner import load_prop, execute, run_seed_for
pid = %(pid)r
mod = load_prop(pid)
out = {}
for idx in %(indices)r:
    seed = run_seed_for(%(vseed)d, pid, "quick", idx)
    res, ch = execute(mod, seed=seed, idx=idx, run_cap=120)
    th = hashlib.sha256(repr(ch.tape[:ch.pos]).encode()).hexdigest()[:12]
    out[idx] = [th, res.digest, res.signature, sorted(v.key for v in res.violations)]
print("RESULT " + json.dumps(out))
"""


def run_child(pid, indices, hashseed, vseed):
    env = dict(os.environ)
    env["PYTHONHASHSEED"] = str(hashseed)
    env["PYTHONDONTWRITEBYTECODE"] = "1"
    env["VERIF_TIER_EFFECTIVE"] = "quick"
    code = CHILD % {"verif": VERIF, "pid": pid, "indices": list(indices), "vseed": vseed}
    p = subprocess.run(["/venv/bin/python", "-c", code], env=env, capture_output=True, text=True,
                       timeout=1800, cwd=VERIF)
    for line in p.stdout.splitlines():
        if line.startswith("RESULT "):
            return {int(k): v for k, v in json.loads(line[7:]).items()}
    raise RuntimeError(f"child failed for {pid}: {p.stdout[-500:]} {p.stderr[-1500:]}")


def determinism(n, props, vseed):
    import concurrent.futures as cf
    bad = 0
    jobs = []
    with cf.ThreadPoolExecutor(max_workers=8) as ex:
        for pid in props:
            mod_n = n
            # spread indices: the first ones (enumerated cases for C15) and some far ones
            idxs = list(range(0, mod_n // 2)) + list(range(50000, 50000 + mod_n - mod_n // 2))
            a = ex.submit(run_child, pid, idxs, 0, vseed)
            b = ex.submit(run_child, pid, list(reversed(idxs)), 98765, vseed)
            jobs.append((pid, idxs, a, b))
        for pid, idxs, a, b in jobs:
            ra, rb = a.result(), b.result()
            diffs = [i for i in idxs if ra.get(i) != rb.get(i)]
            if diffs:
                bad += 1
                i = diffs[0]
                print(f"NONDETERMINISTIC property={pid} runs_differing={len(diffs)}/{len(idxs)} "
                      f"first_index={i}\n  A={ra.get(i)}\n  B={rb.get(i)}")
            else:
                print(f"deterministic property={pid} runs={len(idxs)} x 2 interpreters "
                      f"(PYTHONHASHSEED 0 ascending / 98765 descending)")
    return 2 if bad else 0


def main(argv):
    what = argv[0] if argv else "determinism"
    n = 60
    props = PROPS
    vseed = int(os.environ.get("VERIF_SEED", "1") or 1)
    i = 1
    while i < len(argv):
        if argv[i] == "--n":
            n = int(argv[i + 1])
            i += 2
        elif argv[i] == "--props":
            props = argv[i + 1].split(",")
            i += 2
        else:
            i += 1
    if what == "determinism":
        rc = determinism(n, props, vseed)
        print("HARNESS-ERROR nondeterminism detected" if rc else "selftest determinism: ok")
        return rc
    print("unknown selftest", what)
    return 2
