"""Shared client-wire world for C03 / C11 / C16: the real GeminiClient + real
TOFUDatabase against scripted TLS servers, driven by an operation history and
checked against an abstract pin map."""

from __future__ import annotations

import asyncio
import os
import pathlib

from . import fixtures as fx
from .clientwire import ScriptedServer, parse_tls_records
from .net import DrawnPolicy, WholePolicy
from .storage import SEAM, _real_connect
from .world import Sim, fresh_dir

# the last two are look-alikes under SQL LIKE ('_' is a wildcard there); the CA fixtures only
# name the first three (NCA), so CA-verified runs stay on those
HOSTS = ["alpha.sim", "beta.sim", "gamma.sim", "my_cap.sim", "my-cap.sim"]
NCA = 3
HOST_WEIGHTS = [3, 3, 3, 1, 1]
PORTS = [1965, 7070]


def read_table(db_path):
    """known_hosts rows via an un-instrumented connection: {(host, port): fp}."""
    if not os.path.exists(db_path):
        return {}
    conn = _real_connect(db_path)
    try:
        try:
            rows = conn.execute("SELECT hostname, port, fingerprint FROM known_hosts").fetchall()
        except Exception:
            return {}
    finally:
        conn.close()
    return {(h, p): f for h, p, f in rows}


def spell(ch, host, label="case"):
    """Another spelling of the same host name: letter case (DNS names are case-insensitive)
    or a compatibility character that IDNA name preparation maps to the same name (a
    full-width letter; the resolver and the TLS layer see the plain name)."""
    k = ch.choose(label, 5, [6, 1, 1, 1, 1])
    if k == 0:
        return host
    if k == 1:
        return host.upper()
    if k == 2:
        return host.title()
    if k == 4:
        i = next((i for i, c in enumerate(host) if "a" <= c <= "z"), None)
        if i is None:
            return host
        return host[:i] + chr(ord(host[i]) - ord("a") + 0xFF41) + host[i + 1:]
    return "".join(c.upper() if i % 2 else c for i, c in enumerate(host))


def load_cert(name):
    from cryptography import x509
    return x509.load_der_x509_certificate(fx.der(name))


class TofuWorld:
    def __init__(self, ch, focus="c03"):
        self.ch = ch
        self.focus = focus
        self.sim = Sim(ch)
        self.net = self.sim.net
        self.scratch = fresh_dir(focus)
        self.db_path = os.path.join(self.scratch, "tofu.db")
        self.servers = {}
        self.redirect = {}        # (h, p) -> (h2, p2) | None
        self.reader_mode = {}     # (h, p) -> 'eager' | 'lazy' | 'never'
        self.fail_mode = {}       # (h, p) -> None | 'close' | 'rst' | 'stall'
        self.redirect_spelling = {}   # (h, p) -> host spelling used in the 3x target
        self.speak_first = {}     # (h, p) -> True: TLS 1.2 server that answers before any request
        self.redirect_seq = {}    # (h, p) -> [target | None, ...] for its next connections (overrides redirect)
        self.fail_once = {}       # (h, p) -> 'rst' | 'close': only the NEXT connection fails, before the handshake
        self.drop_once = {}       # (h, p) -> 'close' | 'rst': the NEXT connection takes the request and goes away without a byte
        self.records = []
        self.use_ec = False
        self.cut = 0

    # ---- servers ------------------------------------------------------------
    def behaviour(self, key):
        def beh(idx, server):
            h, p = key
            tgt = self.redirect.get(key)
            seq = self.redirect_seq.get(key)
            if seq:
                tgt = seq.pop(0)

            def respond(peer):
                line = bytes(peer.rx_plain).split(b"\r\n")[0]
                if tgt is not None and line.lower().startswith(b"gemini://"):
                    th = self.redirect_spelling.get(key) or tgt[0]
                    peer.send_app(f"30 gemini://{th}:{tgt[1]}/hop\r\n".encode())
                else:
                    peer.send_app(f"20 text/plain\r\nhello from {h}:{p}\n".encode())
            def respond_first(peer):
                # speaks before it knows the request: always the plain answer, never a redirect
                peer.send_app(f"20 text/plain\r\nhello from {h}:{p}\n".encode())
            mode = self.reader_mode.get(key, "eager")
            fail = self.fail_mode.get(key)
            drop = self.drop_once.pop(key, None)
            if drop:
                return {"script": [("wait_line",), ("close",) if drop == "close" else ("rst",)]}
            once = self.fail_once.pop(key, None)
            if once:
                server.cert_queue.insert(0, server.cert_queue[0] if server.cert_queue else server.cert)
                return {"script": [("rst",)] if once == "rst" else [("fin",)], "no_tls": True}
            d = {"script": [("wait_line",), ("call", respond), ("close",)]}
            if self.speak_first.get(key) and not fail:
                # response and close ride in the same flight as the server's Finished
                d = {"script": [("call", respond_first), ("close",)]}
                if mode == "never":
                    d["reader"] = "never"
            if fail == "close":
                d = {"script": [("wait_line",), ("close",)]}
            elif fail == "rst":
                d = {"script": [("rst",)]}
            elif fail == "stall":
                d = {"script": [("stall",)]}
            if mode == "never":
                d["reader"] = "never"
            elif mode == "lazy":
                d["pause"] = 0.5
            return d
        return beh

    def setup_servers(self, certs):
        for h in HOSTS:
            for p in PORTS:
                key = (h, p)
                self.servers[key] = ScriptedServer(self.sim, h, p, certs[key], self.behaviour(key))
                for c in ():
                    pass

    def link(self, host, port):
        if self.cut and not self.use_ec:
            return {"c2s": DrawnPolicy(self.ch, "c2s", 1, latency=0.001, max_cuts=2),
                    "s2c": DrawnPolicy(self.ch, "s2c", 1, latency=0.001, max_cuts=2)}
        return {}

    # ---- run ----------------------------------------------------------------
    def run(self, coro_fn, horizon=2000.0):
        self.sim.loop.link_for_connect = self.link
        status = self.sim.run(coro_fn(), horizon=horizon, max_iterations=600000)
        if self.sim.error is not None:
            raise self.sim.error
        if status != "done":
            raise RuntimeError(f"{self.focus} world ended with status {status}")
        return status

    def conns_since(self, marks):
        out = []
        for key, s in self.servers.items():
            for peer in s.conns[marks.get(key, 0):]:
                out.append((key, peer))
        return out

    def marks(self):
        return {k: len(s.conns) for k, s in self.servers.items()}


def app_bytes_info(peer, cipher: bytes):
    """Offset in the client's ciphertext stream where application records start
    (after ClientHello, ChangeCipherSpec and the encrypted Finished)."""
    recs = parse_tls_records(cipher)
    seen_ccs = False
    fin_seen = False
    for typ, ln, off in recs:
        if typ == 20:
            seen_ccs = True
            continue
        if typ == 23:
            if not fin_seen:
                fin_seen = True      # first encrypted record = Finished
                continue
            return off
    return None
