"""client-wire world: the REAL GeminiClient (get / upload / delete) with a real
TOFUDatabase file, against scripted TLS servers registered on the simulated
network.  Every server logs what it decrypts, with virtual time and the global
event sequence."""

from __future__ import annotations

from . import fixtures as fx
from .net import WholePolicy
from .peers import RawPeer


class ScriptedServer:
    """A raw TLS (or plaintext) listener.

    behaviour(conn_index, server) -> dict with
        script   list of RawPeer actions (default: wait_line, stall)
        reader   'eager' | 'never'
        pause    read_pause_until (lazy reader)
    The certificate can be swapped between connections (``self.cert = ...``).
    """

    def __init__(self, sim, host, port, cert, behaviour, tls=True):
        self.sim = sim
        self.host = host
        self.port = port
        self.cert = cert
        self.behaviour = behaviour
        self.tls = tls
        self.conns = []
        self.cert_queue = []      # certificates for the next connections (then self.cert)
        self.tls12 = False        # TLS 1.2 only (server Finished is the last handshake message)
        sim.net.register_raw_listener(host, port, self.accept)

    def accept(self, ep):
        idx = len(self.conns)
        beh = self.behaviour(idx, self) or {}
        kw = {}
        if beh.get("reader") == "never":
            kw["reader"] = "never"
        if beh.get("pause") is not None:
            kw["read_pause_until"] = self.sim.net.now + beh["pause"]
        cert = self.cert_queue.pop(0) if self.cert_queue else self.cert
        peer = RawPeer(self.sim.net, ep, beh.get("script", [("wait_line",), ("stall",)]),
                       tls_ctx=fx.server_ctx(cert, self.tls12) if (self.tls and not beh.get("no_tls")) else None,
                       server_side=True,
                       polite_close=beh.get("polite_close", True),
                       name=f"{self.host}:{self.port}#{idx}", keep_cipher=True, **kw)
        peer.cert_presented = cert
        peer.t_accept = self.sim.net.now
        peer.gseq_accept = self.sim.net.gseq
        self.conns.append(peer)

    def close(self):
        self.sim.net.listeners.pop((self.host, self.port), None)


def response_script(header: bytes, body: bytes = b"", pieces=None, end="close", trigger="line",
                    pre_delay=0.0):
    """Standard server script: wait for the request line, send the response in
    ``pieces`` (list of (delay, bytes)) or whole, then end the stream."""
    script = []
    if trigger == "line":
        script.append(("wait_line",))
    if pre_delay:
        script.append(("sleep", pre_delay))
    if pieces is None:
        pieces = [(0.0, header + body)]
    for d, chunk in pieces:
        if d:
            script.append(("sleep", d))
        if chunk:
            script.append(("send", chunk))
    if end == "close":
        script.append(("close",))
    elif end == "fin":
        script.append(("fin",))
    elif end == "rst":
        script.append(("rst",))
    else:
        script.append(("stall",))
    return script


def parse_tls_records(data: bytes):
    """[(type, length, offset)] of complete TLS records in a byte stream."""
    out = []
    i = 0
    while i + 5 <= len(data):
        typ = data[i]
        ln = int.from_bytes(data[i + 3:i + 5], "big")
        if i + 5 + ln > len(data):
            break
        out.append((typ, ln, i))
        i += 5 + ln
    return out
