"""Scripted raw peers: they speak to their Endpoint directly (no asyncio),
optionally through an in-memory TLS engine, and can therefore misbehave in
every way a TCP/TLS peer can: arbitrary write pieces (one TLS record each),
delays, half-close, close without close_notify, reset, stall, slow reading.
"""

from __future__ import annotations

import ssl

from .net import Endpoint, SimNet


class TLSEngine:
    def __init__(self, ctx: ssl.SSLContext, server_side: bool, server_hostname=None, session=None):
        self.inb = ssl.MemoryBIO()
        self.outb = ssl.MemoryBIO()
        kw = {"session": session} if (session is not None and not server_side) else {}
        self.obj = ctx.wrap_bio(self.inb, self.outb, server_side=server_side,
                                server_hostname=server_hostname, **kw)
        self.hs_done = False
        self.got_close_notify = False
        self.error = None
        self.sent_close_notify = False

    def feed(self, data: bytes) -> bytes:
        """Feed ciphertext, return decrypted application bytes."""
        if data:
            self.inb.write(data)
        out = bytearray()
        if self.error is not None:
            return b""
        if not self.hs_done:
            try:
                self.obj.do_handshake()
                self.hs_done = True
            except ssl.SSLWantReadError:
                return b""
            except (ssl.SSLError, OSError) as e:
                self.error = e
                return b""
        while not self.got_close_notify:
            try:
                d = self.obj.read(65536)
            except ssl.SSLWantReadError:
                break
            except ssl.SSLZeroReturnError:
                self.got_close_notify = True
                break
            except (ssl.SSLError, OSError) as e:
                self.error = e
                break
            if not d:
                self.got_close_notify = True
                break
            out += d
        return bytes(out)

    def write(self, data: bytes):
        if data and self.error is None:
            try:
                self.obj.write(data)
            except (ssl.SSLError, OSError) as e:
                self.error = e

    def close_notify(self):
        if self.sent_close_notify or self.error is not None or not self.hs_done:
            return
        self.sent_close_notify = True
        try:
            self.obj.unwrap()
        except (ssl.SSLError, OSError):
            pass

    def take_out(self) -> bytes:
        return self.outb.read()


class RawPeer:
    """A scripted endpoint.

    script: list of actions run in order once the peer is *started*
      ("send", bytes)        application bytes (one TLS record per action)
      ("sleep", seconds)
      ("close",)             polite: TLS close_notify (if TLS) then FIN
      ("fin",)               TCP FIN without close_notify
      ("rst",)               TCP reset
      ("stall",)             stop here forever (never close)
      ("wait_line",)         wait until a CRLF was received in the plaintext
      ("wait_bytes", n)      wait until n plaintext bytes were received
      ("wait_eof",)          wait until the other side ended the stream
      ("call", fn)           fn(peer)
    Start: clients start as soon as the TLS handshake is done (or at once
    without TLS); ``coalesce_first`` puts the first send into the same flight
    as the client's Finished.
    """

    def __init__(self, net: SimNet, ep: Endpoint, script, *, tls_ctx=None, server_side=False,
                 server_hostname=None, reader="eager", read_rate=None, read_interval=0.05,
                 read_pause_until=None, polite_close=True, coalesce_first=False, name="peer", tls_session=None,
                 keep_cipher=False):
        self.net = net
        self.ep = ep
        self.name = name
        self.script = list(script)
        self.pc = 0
        self.eng = TLSEngine(tls_ctx, server_side, server_hostname, tls_session) if tls_ctx else None
        self.server_side = server_side
        self.reader = reader
        self.read_rate = read_rate
        self.read_interval = read_interval
        self.read_pause_until = read_pause_until
        self.polite_close = polite_close
        self.coalesce_first = coalesce_first
        self.outq = bytearray()
        self.rx_plain = bytearray()
        self.rx_log = []          # (time, nbytes) plaintext arrivals
        self.rx_cipher_total = 0
        self.rx_cipher = bytearray() if keep_cipher else None
        self.t_hs_done = None
        self.t_close_notify = None
        self.t_fin = None
        self.t_rst = None
        self.t_first_plain = None
        self.cipher_at_first_plain = None
        self.started = False
        self.finished = False
        self.stalled = False
        self.closed = False
        self.waiting = None
        self._flush_scheduled = False
        self._read_timer = False
        self.sent_plain = 0
        self.tls_error = None
        self.hs_bytes_out = None
        self.on_plain = None      # optional callback(peer, data)
        ep.on_event = self._on_event
        if self.eng and not server_side:
            self.eng.feed(b"")     # produce ClientHello
            self._flush_engine()
        if not self.eng:
            self._start()

    # -- output --------------------------------------------------------------
    def _flush_engine(self):
        if self.eng:
            out = self.eng.take_out()
            if out:
                self.outq += out
        self._flush()

    def _flush(self):
        if self.closed and not self.outq:
            return
        while self.outq:
            n = self.ep.send(self.outq)
            if n <= 0:
                break
            del self.outq[:n]
        if self.outq and not self._flush_scheduled and not self.ep.tx.dead \
                and not self.ep.tx.closed_tx:
            self._flush_scheduled = True
            self.net.after(0.002, self._flush_again)
        if not self.outq and self._pending_ctl:
            ctl = self._pending_ctl
            self._pending_ctl = None
            ctl()

    _pending_ctl = None

    def _flush_again(self):
        self._flush_scheduled = False
        self._flush()

    def send_app(self, data: bytes):
        self.sent_plain += len(data)
        if self.eng:
            self.eng.write(data)
            self._flush_engine()
        else:
            self.outq += data
            self._flush()

    # -- input ---------------------------------------------------------------
    def _on_event(self):
        if self.reader == "never" and (self.eng is None or self.eng.hs_done):
            self._check_ctl()
            return
        if self.read_pause_until is not None and self.net.now < self.read_pause_until \
                and (self.eng is None or self.eng.hs_done):
            if not self._read_timer:
                self._read_timer = True
                self.net.at(self.read_pause_until, self._timer_read)
            return
        if self.read_rate is not None and (self.eng is None or self.eng.hs_done):
            if not self._read_timer:
                self._read_timer = True
                self.net.after(self.read_interval, self._timer_read)
            return
        self._consume(None)

    def _timer_read(self):
        self._read_timer = False
        if self.read_pause_until is not None and self.net.now >= self.read_pause_until:
            self.read_pause_until = None
        self._consume(self.read_rate)
        p = self.ep.rxp
        if p.rx and self.read_rate is not None and not self._read_timer:
            self._read_timer = True
            self.net.after(self.read_interval, self._timer_read)

    def _consume(self, limit):
        p = self.ep.rxp
        data = self.ep.recv_all() if limit is None else self.ep.recv_n(limit)
        if data:
            self.rx_cipher_total += len(data)
            if self.rx_cipher is not None:
                self.rx_cipher += data
            if self.eng:
                was = self.eng.hs_done
                plain = self.eng.feed(data)
                if self.eng.error is not None and self.tls_error is None:
                    self.tls_error = self.eng.error
                if self.eng.hs_done and not was:
                    self.t_hs_done = self.net.now
                    out = self.eng.take_out()
                    if out:
                        self.outq += out
                    # ciphertext bytes of our handshake flights (Finished included)
                    self.hs_bytes_out = self.ep.tx.sent + len(self.outq)
                    if not self.server_side and self.coalesce_first and not self.started:
                        # first app record rides with our Finished
                        self._start()
                    self._flush_engine()
                    if not self.started:
                        self._start()
                else:
                    self._flush_engine()
                if self.eng.got_close_notify and self.t_close_notify is None:
                    self.t_close_notify = self.net.now
                    self.net.log("closenotify", self.name)
            else:
                plain = data
            if plain:
                if self.t_first_plain is None:
                    self.t_first_plain = self.net.now
                    self.cipher_at_first_plain = self.rx_cipher_total
                self.rx_plain += plain
                self.rx_log.append((self.net.now, len(plain)))
                if self.on_plain:
                    self.on_plain(self, plain)
        self._check_ctl()
        self._advance()

    def _check_ctl(self):
        p = self.ep.rxp
        if not p.rx:
            if p.rx_rst and self.t_rst is None:
                self.t_rst = self.net.now
            if p.rx_fin and self.t_fin is None:
                self.t_fin = self.net.now
        if self.eof_seen() and self.polite_close and not self.closed and self.finished:
            self.do_close(polite=True)

    def eof_seen(self):
        return self.t_close_notify is not None or self.t_fin is not None or self.t_rst is not None

    def drain_final(self):
        """End of run: decrypt whatever is still unread (lazy readers)."""
        data = self.ep.recv_all()
        if data:
            self.rx_cipher_total += len(data)
            if self.rx_cipher is not None:
                self.rx_cipher += data
            if self.eng:
                plain = self.eng.feed(data)
                if self.eng.got_close_notify and self.t_close_notify is None:
                    self.t_close_notify = self.net.now
            else:
                plain = data
            if plain:
                if self.t_first_plain is None:
                    self.t_first_plain = self.net.now
                self.rx_plain += plain
        p = self.ep.rxp
        if p.rx_fin and self.t_fin is None:
            self.t_fin = self.net.now
        if p.rx_rst and self.t_rst is None:
            self.t_rst = self.net.now

    # -- script --------------------------------------------------------------
    def _start(self):
        if self.started:
            return
        self.started = True
        self._advance()

    def _advance(self):
        if not self.started or self.stalled or self.waiting == "sleep":
            return
        while self.pc < len(self.script):
            act = self.script[self.pc]
            k = act[0]
            if k == "send":
                if self.closed:
                    self.pc += 1
                    continue
                self.pc += 1
                self.send_app(act[1])
            elif k == "sleep":
                self.pc += 1
                self.waiting = "sleep"
                self.net.after(act[1], self._wake)
                return
            elif k == "wait_line":
                if b"\r\n" in self.rx_plain or self.eof_seen():
                    self.pc += 1
                    continue
                return
            elif k == "wait_bytes":
                if len(self.rx_plain) >= act[1] or self.eof_seen():
                    self.pc += 1
                    continue
                return
            elif k == "wait_eof":
                if self.eof_seen():
                    self.pc += 1
                    continue
                return
            elif k == "close":
                self.pc += 1
                self.do_close(polite=True)
            elif k == "close_notify":
                # TLS goodbye only: the TCP connection stays open and silent
                self.pc += 1
                if self.eng:
                    self.eng.close_notify()
                    self._flush_engine()
            elif k == "fin":
                self.pc += 1
                self.do_close(polite=False)
            elif k == "rst":
                self.pc += 1
                self.outq.clear()
                self.closed = True
                self.ep.rst()
                self.net.log("peer_rst", self.name)
            elif k == "stall":
                self.stalled = True
                self.net.log("peer_stall", self.name)
                return
            elif k == "call":
                self.pc += 1
                act[1](self)
                if self.waiting:
                    return
            else:
                raise ValueError(k)
        if not self.finished:
            self.finished = True
            self._check_ctl()

    def _wake(self):
        self.waiting = None
        self._advance()

    def do_close(self, polite=True):
        if self.closed:
            return
        self.closed = True
        if polite and self.eng:
            self.eng.close_notify()
            out = self.eng.take_out()
            if out:
                self.outq += out
        if self.outq:
            self._pending_ctl = self.ep.fin
            self._flush()
        else:
            self.ep.fin()
