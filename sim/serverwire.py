"""server-wire world: a server assembled from the REAL nauyaca parts on the
simulated network, in one of three transport modes, plus scripted spies and
wire-format helpers shared by several properties."""

from __future__ import annotations

import asyncio
import hashlib
import os

from . import fixtures as fx

MODES = ("plain", "stdlib", "pyopenssl")

_ctx_cache = {}


def stdlib_ctx(cert="rsa1"):
    from sim.world import TICKETS
    from nauyaca.security.tls import create_server_context
    if TICKETS["allow"]:
        # a world that studies session resumption: its own context (tickets on, own session cache)
        return create_server_context(fx.crt(cert), fx.key(cert))
    k = ("std", cert)
    if k not in _ctx_cache:
        _ctx_cache[k] = create_server_context(fx.crt(cert), fx.key(cert))
    return _ctx_cache[k]


def pyopenssl_ctx(cert="rsa1", request_client_cert=True):
    from sim.world import TICKETS
    from nauyaca.security.pyopenssl_tls import create_pyopenssl_server_context
    if TICKETS["allow"]:
        return create_pyopenssl_server_context(fx.crt(cert), fx.key(cert),
                                               request_client_cert=request_client_cert)
    k = ("pyo", cert, request_client_cert)
    if k not in _ctx_cache:
        _ctx_cache[k] = create_pyopenssl_server_context(fx.crt(cert), fx.key(cert),
                                                        request_client_cert=request_client_cert)
    return _ctx_cache[k]


async def start_protocol_server(sim, mode, handler, middleware=None, upload_handler=None,
                                host="srv.sim", port=1965, cert="rsa1"):
    """Bare real protocol classes on a simulated listener."""
    from nauyaca.server.protocol import GeminiServerProtocol

    def inner():
        return GeminiServerProtocol(handler, middleware, upload_handler)
    if mode == "plain":
        return await sim.loop.create_server(inner, host, port)
    if mode == "stdlib":
        return await sim.loop.create_server(inner, host, port, ssl=stdlib_ctx(cert))
    if mode == "pyopenssl":
        from nauyaca.server.tls_protocol import TLSServerProtocol
        ctx = pyopenssl_ctx(cert)
        return await sim.loop.create_server(lambda: TLSServerProtocol(inner, ctx), host, port)
    raise ValueError(mode)


def peer_tls_ctx(mode, client_cert=None):
    if mode == "plain":
        return None
    return fx.client_ctx(client_cert)


# ---------------------------------------------------------------------------
# spies
# ---------------------------------------------------------------------------

class SpyHandler:
    """Scripted request handler.  plan = dict(kind='ret'|'raise', delay=None|float,
    response=GeminiResponse | None, exc=Exception | None, fn=callable(request)->response)"""

    def __init__(self, sim, plan):
        self.sim = sim
        self.plan = plan
        self.log = []          # (time, raw_url, fingerprint)
        self.done_log = []     # (time,) completion instants

    def __call__(self, request):
        self.log.append((self.sim.net.now, getattr(request, "raw_url", None),
                         getattr(request, "client_cert_fingerprint", None),
                         getattr(request, "path", None), getattr(request, "query", None)))
        plan = self.plan
        if plan.get("delay") is None:
            return self._finish(request)
        return self._later(request)

    async def _later(self, request):
        d = self.plan["delay"]
        if d > 0:
            await asyncio.sleep(d)
        else:
            await asyncio.sleep(0)
        return self._finish(request)

    def _finish(self, request):
        self.done_log.append(self.sim.net.now)
        plan = self.plan
        if plan["kind"] == "raise":
            raise plan["exc"]
        if plan.get("fn"):
            return plan["fn"](request)
        return plan["response"]


class SpyUpload:
    def __init__(self, sim, plan):
        self.sim = sim
        self.plan = plan
        self.log = []

    async def handle_upload(self, request):
        content = getattr(request, "content", b"")
        self.log.append((self.sim.net.now, getattr(request, "raw_url", None),
                         getattr(request, "size", None), len(content),
                         hashlib.sha256(content).hexdigest()[:16],
                         getattr(request, "token", None), getattr(request, "mime_type", None),
                         getattr(request, "client_cert_fingerprint", None)))
        d = self.plan.get("delay")
        if d:
            await asyncio.sleep(d)
        if self.plan["kind"] == "raise":
            raise self.plan["exc"]
        if self.plan.get("fn"):
            return self.plan["fn"](request)
        return self.plan["response"]


# ---------------------------------------------------------------------------
# wire format
# ---------------------------------------------------------------------------

def expected_wire(resp) -> bytes:
    """What a handler-produced GeminiResponse must look like on the wire if it
    is well-formed (callers decide what to demand when it is not)."""
    head = f"{resp.status} {resp.meta}\r\n".encode("utf-8")
    body = resp.body
    if body is None or body == "" or body == b"":
        return head
    if isinstance(body, str):
        body = body.encode("utf-8")
    return head + bytes(body)


def parse_wire(data: bytes):
    """Parse bytes received by a client.  Returns dict(ok, why, status, meta, body)."""
    out = {"ok": False, "why": None, "status": None, "meta": None, "body": None}
    if not data:
        out["why"] = "empty"
        return out
    i = data.find(b"\r\n")
    if i < 0:
        out["why"] = "no CRLF"
        return out
    head, body = data[:i], data[i + 2:]
    out["body"] = body
    if len(head) < 2 or not head[:2].isdigit() or not (48 <= head[0] <= 57 and 48 <= head[1] <= 57):
        out["why"] = "status is not two digits"
        return out
    st = int(head[:2])
    out["status"] = st
    if not 10 <= st <= 69:
        out["why"] = f"status {st} out of range"
        return out
    if len(head) == 2:
        meta = b""
        out["why"] = "no space after status"
        out["meta"] = meta
        return out
    if head[2:3] != b" ":
        out["why"] = "no single space after status"
        return out
    meta = head[3:]
    out["meta"] = meta
    if b"\r" in meta or b"\n" in meta:
        out["why"] = "CR or LF inside meta"
        return out
    if len(meta) > 1024:
        out["why"] = f"meta is {len(meta)} bytes (> 1024)"
        return out
    if not 20 <= st <= 29 and body:
        out["why"] = f"status {st} followed by a {len(body)}-byte body"
        return out
    out["ok"] = True
    return out


def snapshot(root: str):
    """Recursive snapshot {relpath: ('d',) | ('l', target) | ('f', sha, size)}."""
    out = {}
    if not os.path.lexists(root):
        return out
    for dirpath, dirnames, filenames in os.walk(root, followlinks=False):
        rel = os.path.relpath(dirpath, root)
        for d in list(dirnames):
            p = os.path.join(dirpath, d)
            r = os.path.normpath(os.path.join(rel, d))
            if os.path.islink(p):
                out[r] = ("l", os.readlink(p))
                dirnames.remove(d)
            else:
                out[r] = ("d",)
        for f in filenames:
            p = os.path.join(dirpath, f)
            r = os.path.normpath(os.path.join(rel, f))
            if os.path.islink(p):
                out[r] = ("l", os.readlink(p))
            else:
                try:
                    with open(p, "rb") as fh:
                        b = fh.read()
                    out[r] = ("f", hashlib.sha256(b).hexdigest()[:16], len(b))
                except OSError as e:
                    out[r] = ("f?", type(e).__name__)
    return out
