"""Committed certificate fixtures (see tools/gen_fixtures.py)."""
import functools
import hashlib
import os
import ssl

DIR = os.path.join(os.path.dirname(os.path.dirname(os.path.abspath(__file__))), "fixtures")

SERVER_CERTS = ["rsa1", "rsa2", "rsa3", "rsa4", "ed1", "ed2"]
BAD_CERTS = ["bad1", "bad2"]       # OpenSSL serves them, cryptography cannot parse them
EC_CERTS = ["ec1"]
CLIENT_CERTS = ["cli_rsa1", "cli_rsa2", "cli_ed1", "cli_same1", "cli_same2",   # same1/2: same subject
                "cli_bundle"]   # cli_rsa2 (leaf, its key) followed by a copy of cli_rsa1's public certificate
CLONE_CERTS = ["clone_a", "clone_b"]   # same issuer, subject and serial number, different keys
CA_CERTS = ["caleaf1", "caleaf2", "caleaf3"]   # issued by the private CA "simca" for every simulated host name
CA_FILE_NAME = "simca"
EXPIRED_CERTS = ["expired1"]       # validity 2000-2001; OpenSSL serves it, TOFU pins by fingerprint


def crt(name):
    return os.path.join(DIR, name + ".crt")


def key(name):
    return os.path.join(DIR, name + ".key")


@functools.lru_cache(None)
def der(name) -> bytes:
    with open(os.path.join(DIR, name + ".der"), "rb") as f:
        return f.read()


@functools.lru_cache(None)
def fp(name) -> str:
    return "sha256:" + hashlib.sha256(der(name)).hexdigest()


@functools.lru_cache(None)
def server_ctx(name, tls12=False) -> ssl.SSLContext:
    """Permissive scripted-server context presenting fixture ``name``
    (tls12=True: TLS 1.2 only, where the server's Finished is the last
    handshake message and application data can ride in the same flight)."""
    ctx = ssl.SSLContext(ssl.PROTOCOL_TLS_SERVER)
    ctx.load_cert_chain(crt(name), key(name))
    ctx.minimum_version = ssl.TLSVersion.TLSv1_2
    if tls12:
        ctx.maximum_version = ssl.TLSVersion.TLSv1_2
    ctx.num_tickets = 0
    return ctx


@functools.lru_cache(None)
def client_ctx(cert=None, tls12=False) -> ssl.SSLContext:
    """Scripted raw client context (accepts anything; optional client cert; tls12=True: a
    client that only speaks TLS 1.2, the servers' configured minimum)."""
    ctx = ssl.SSLContext(ssl.PROTOCOL_TLS_CLIENT)
    ctx.check_hostname = False
    ctx.verify_mode = ssl.CERT_NONE
    ctx.minimum_version = ssl.TLSVersion.TLSv1_2
    if tls12:
        ctx.maximum_version = ssl.TLSVersion.TLSv1_2
    if cert:
        ctx.load_cert_chain(crt(cert), key(cert))
    return ctx
