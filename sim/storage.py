"""Storage seams: a fault-injecting / crashing proxy around sqlite3 connections
and a fault-injecting wrapper around file operations under a sandbox root.

SQL: every statement and every commit is a *tick*.  A plan can make tick k
raise sqlite3.OperationalError, or *crash*: the database file and its
-journal/-wal/-shm siblings are copied as they are at that instant (what
kill -9 leaves behind) and SimCrash(BaseException) is raised so that no
``except Exception`` in the code under test can swallow it.
"""

from __future__ import annotations

import builtins
import errno
import io
import os
import shutil
import sqlite3

_real_connect = sqlite3.connect


class SimCrash(BaseException):
    """The simulated process died here."""


class SqlSeam:
    def __init__(self):
        self.tick = 0
        self.log = []            # (tick, gseq, kind, sql-prefix)
        self.fault_at = None     # tick number (1-based) at which to inject
        self.fault_kind = None   # "error:<msg>" | "crash" | "call" (run self.hook: another process's turn)
        self.hook = None
        self.crash_dir = None    # where the crash snapshot goes
        self.db_path = None
        self.fired = None
        self.net = None          # for the global sequence number
        self.enabled = True

    def reset(self, net=None):
        self.tick = 0
        self.log = []
        self.fault_at = None
        self.fault_kind = None
        self.fired = None
        self.net = net

    def connect(self, database, *a, **kw):
        conn = _real_connect(database, *a, **kw)
        return ConnProxy(self, conn, str(database))

    def on_tick(self, kind, sql, path, conn=None):
        if not self.enabled:
            return
        self.tick += 1
        g = 0
        if self.net is not None:
            self.net.gseq += 1
            g = self.net.gseq
        self.log.append((self.tick, g, kind, (sql or "").strip()[:60]))
        if self.fault_at is not None and self.tick == self.fault_at and self.fired is None:
            self.fired = (self.tick, kind, (sql or "").strip()[:60])
            if self.fault_kind == "crash":
                self.snapshot(path)
                raise SimCrash(f"crash at tick {self.tick} ({kind})")
            if self.fault_kind == "call":
                # another process gets its turn at this statement boundary
                self.enabled = False
                try:
                    self.hook()
                finally:
                    self.enabled = True
                return
            msg = self.fault_kind.split(":", 1)[1]
            if self.fault_kind.startswith("error-rollback:") and conn is not None:
                # what the engine itself does on SQLITE_FULL / IOERR / NOMEM / INTERRUPT in the
                # middle of a write: the whole transaction is rolled back before the error
                # is reported (a later statement on this connection starts a NEW transaction)
                try:
                    conn.rollback()
                except Exception:
                    pass
            raise sqlite3.OperationalError(msg)

    def snapshot(self, path):
        if self.crash_dir is None:
            return
        os.makedirs(self.crash_dir, exist_ok=True)
        for suffix in ("", "-journal", "-wal", "-shm"):
            src = path + suffix
            if os.path.exists(src):
                shutil.copy2(src, os.path.join(self.crash_dir, os.path.basename(src)))


SEAM = SqlSeam()


class CursorProxy:
    def __init__(self, seam, cur, path):
        object.__setattr__(self, "_seam", seam)
        object.__setattr__(self, "_cur", cur)
        object.__setattr__(self, "_path", path)

    def execute(self, sql, *a):
        self._seam.on_tick("stmt", sql, self._path, getattr(self._cur, "connection", None))
        self._cur.execute(sql, *a)
        return self

    def executemany(self, sql, *a):
        self._seam.on_tick("stmt", sql, self._path, getattr(self._cur, "connection", None))
        self._cur.executemany(sql, *a)
        return self

    def executescript(self, sql):
        self._seam.on_tick("stmt", sql, self._path)
        self._cur.executescript(sql)
        return self

    def __iter__(self):
        return iter(self._cur)

    def __getattr__(self, name):
        return getattr(self._cur, name)

    def __setattr__(self, name, value):
        setattr(self._cur, name, value)


class ConnProxy:
    def __init__(self, seam, conn, path):
        object.__setattr__(self, "_seam", seam)
        object.__setattr__(self, "_conn", conn)
        object.__setattr__(self, "_path", path)

    def cursor(self, *a, **kw):
        return CursorProxy(self._seam, self._conn.cursor(*a, **kw), self._path)

    def execute(self, sql, *a):
        self._seam.on_tick("stmt", sql, self._path, self._conn)
        return CursorProxy(self._seam, self._conn.execute(sql, *a), self._path)

    def executemany(self, sql, *a):
        self._seam.on_tick("stmt", sql, self._path, self._conn)
        return CursorProxy(self._seam, self._conn.executemany(sql, *a), self._path)

    def executescript(self, sql):
        self._seam.on_tick("stmt", sql, self._path)
        return CursorProxy(self._seam, self._conn.executescript(sql), self._path)

    def commit(self):
        self._seam.on_tick("commit", "COMMIT", self._path)
        return self._conn.commit()

    def rollback(self):
        return self._conn.rollback()

    def close(self):
        return self._conn.close()

    def __enter__(self):
        self._conn.__enter__()
        return self

    def __exit__(self, et, ev, tb):
        if et is None:
            # sqlite3's context manager commits on success
            self._seam.on_tick("commit", "COMMIT(with)", self._path)
        return self._conn.__exit__(et, ev, tb)

    def __getattr__(self, name):
        return getattr(self._conn, name)

    def __setattr__(self, name, value):
        setattr(self._conn, name, value)


def install_sql_seam():
    sqlite3.connect = SEAM.connect
    return SEAM


# ---------------------------------------------------------------------------
# file seam
# ---------------------------------------------------------------------------

class FileSeam:
    """Wraps builtins.open / io.open / os.* for paths under ``root``.

    plan: list of dicts {op, match, kind, after} consumed in order of matching
      op    'write' | 'open' | 'mkdir' | 'replace' | 'unlink' | 'rename'
      kind  'ENOSPC' | 'EIO' | 'EACCES' | 'EROFS' | 'ENOENT'
      after for 'write': number of bytes that still get written (torn write)
    """

    def __init__(self):
        self.root = None
        self.plan = []
        self.fired = []
        self.ops = []
        self._orig = {}
        self.installed = False

    def install(self):
        if self.installed:
            return
        self.installed = True
        self._orig = {"open": builtins.open, "io_open": io.open, "os_open": os.open,
                      "replace": os.replace, "rename": os.rename, "unlink": os.unlink,
                      "remove": os.remove, "mkdir": os.mkdir, "rmdir": os.rmdir,
                      "symlink": os.symlink, "link": os.link, "truncate": os.truncate}
        seam = self

        def wrap_open(orig):
            def _open(file, mode="r", *a, **kw):
                if seam.root is not None and isinstance(file, (str, bytes, os.PathLike)):
                    p = os.fspath(file)
                    if isinstance(p, bytes):
                        p = os.fsdecode(p)
                    if seam._under(p):
                        writing = any(c in mode for c in "wax+")
                        seam.ops.append(("open", p, mode))
                        f = seam._take("open", p)
                        if f is not None:
                            raise seam._err(f, p)
                        fobj = orig(file, mode, *a, **kw)
                        if writing:
                            return WriteFaultFile(seam, fobj, p)
                        return fobj
                return orig(file, mode, *a, **kw)
            return _open
        builtins.open = wrap_open(self._orig["open"])
        io.open = wrap_open(self._orig["io_open"])

        def wrap2(name, opname):
            orig = self._orig[name]

            def f(src, *a, **kw):
                p = os.fspath(src)
                if isinstance(p, bytes):
                    p = os.fsdecode(p)
                if seam.root is not None and seam._under(p):
                    seam.ops.append((opname, p))
                    flt = seam._take(opname, p)
                    if flt is not None:
                        raise seam._err(flt, p)
                return orig(src, *a, **kw)
            return f
        # os-level file I/O (code that bypasses the io layer): os.open / os.write / os.close
        self._orig.update({"os_write": os.write, "os_close": os.close})
        self.fds = {}
        orig_os_open, orig_os_write, orig_os_close = os.open, os.write, os.close

        def _os_open(path, flags, *a, **kw):
            p = os.fspath(path)
            if isinstance(p, bytes):
                p = os.fsdecode(p)
            under = seam.root is not None and seam._under(p)
            if under:
                seam.ops.append(("os.open", p, flags))
                flt = seam._take("open", p) if flags & (os.O_WRONLY | os.O_RDWR | os.O_CREAT) else None
                if flt is not None:
                    raise seam._err(flt, p)
            fd = orig_os_open(path, flags, *a, **kw)
            if under:
                seam.fds[fd] = p
            return fd

        def _os_write(fd, data):
            p = seam.fds.get(fd)
            if p is not None and seam.root is not None:
                flt = seam._take("write", p)
                if flt is not None:
                    k = min(len(data), int(flt.get("after", 0)))
                    if flt["kind"] == "SHORT":
                        # the kernel cuts the write short WITHOUT raising; the next
                        # write on this descriptor fails
                        seam.plan.insert(0, {"op": "write", "kind": "ENOSPC", "after": 0, "match": p})
                        if k:
                            return orig_os_write(fd, bytes(data)[:k])
                        raise seam._err({"kind": "ENOSPC"}, p)
                    if k:
                        orig_os_write(fd, bytes(data)[:k])
                    raise seam._err(flt, p)
            return orig_os_write(fd, data)

        def _os_close(fd):
            seam.fds.pop(fd, None)
            return orig_os_close(fd)
        self._orig["os_fsync"] = os.fsync
        orig_fsync = os.fsync

        def _os_fsync(fd):
            # descriptors opened through os.open under the root (e.g. a directory that is synced
            # after a rename) and file objects' descriptors alike
            p = seam.fds.get(fd if isinstance(fd, int) else getattr(fd, "fileno", lambda: -1)())
            if p is not None and seam.root is not None:
                seam.ops.append(("fsync", p))
                flt = seam._take("fsync", p)
                if flt is not None:
                    raise seam._err(flt, p)
            return orig_fsync(fd)
        os.fsync = _os_fsync
        os.open, os.write, os.close = _os_open, _os_write, _os_close
        os.replace = wrap2("replace", "replace")
        os.rename = wrap2("rename", "replace")
        os.unlink = wrap2("unlink", "unlink")
        os.remove = wrap2("remove", "unlink")
        os.mkdir = wrap2("mkdir", "mkdir")

    def uninstall(self):
        if not self.installed:
            return
        builtins.open = self._orig["open"]
        io.open = self._orig["io_open"]
        os.replace = self._orig["replace"]
        os.rename = self._orig["rename"]
        os.unlink = self._orig["unlink"]
        os.remove = self._orig["remove"]
        os.mkdir = self._orig["mkdir"]
        os.open = self._orig["os_open"]
        os.write = self._orig["os_write"]
        os.close = self._orig["os_close"]
        os.fsync = self._orig["os_fsync"]
        self.installed = False

    def arm(self, root, plan):
        self.root = os.path.realpath(root)
        self.plan = list(plan)
        self.fired = []
        self.ops = []

    def disarm(self):
        self.root = None
        self.plan = []

    def _under(self, p):
        try:
            ap = os.path.abspath(p)
        except Exception:
            return False
        return ap == self.root or ap.startswith(self.root + os.sep)

    def _take(self, op, path):
        for i, f in enumerate(self.plan):
            if f["op"] == op and (f.get("match") is None or f["match"] in path):
                del self.plan[i]
                self.fired.append((op, f["kind"], path))
                return f
        return None

    def _err(self, f, path):
        code = getattr(errno, f["kind"])
        cls = {errno.EACCES: PermissionError, errno.ENOENT: FileNotFoundError}.get(code, OSError)
        return cls(code, os.strerror(code), path)


class WriteFaultFile:
    """File object wrapper that can fail a write after k bytes (torn write)."""

    def __init__(self, seam, f, path):
        self._seam = seam
        self._f = f
        self._path = path
        # a planned 'flush' fault: behave like a buffered writer whose tail (the last <= 8 KiB,
        # i.e. everything for small files) only reaches the disk when the file is flushed or
        # closed - and that is where the error is reported
        self._held = bytearray() if any(f_["op"] == "flush" and (f_.get("match") is None or
                                                                  f_["match"] in path)
                                        for f_ in seam.plan) else None
        self._closed = False

    def _drain(self, final):
        if self._held is None:
            return
        if final:
            flt = self._seam._take("flush", self._path)
            if flt is not None:
                k = min(len(self._held), int(flt.get("after", 0)))
                if k:
                    self._f.write(bytes(self._held[:k]))
                self._held = None
                try:
                    self._f.close()
                except Exception:
                    pass
                raise self._seam._err(flt, self._path)
            self._f.write(bytes(self._held))
            self._held = bytearray()
        else:
            while len(self._held) > 8192:
                self._f.write(bytes(self._held[:8192]))
                del self._held[:8192]

    def flush(self):
        self._drain(True)
        return self._f.flush()

    def close(self):
        if self._closed:
            return
        self._closed = True
        self._drain(True)
        return self._f.close()

    def write(self, data):
        if self._held is not None:
            self._held += bytes(data)
            self._drain(False)
            return len(data)
        flt = self._seam._take("write", self._path)
        if flt is not None:
            k = min(len(data), int(flt.get("after", 0)))
            if k:
                self._f.write(data[:k])
                self._f.flush()
            if flt["kind"] == "SHORT":
                # a buffered writer retries the rest of a short write and then meets
                # the full disk: same observable outcome as ENOSPC after k bytes
                raise self._seam._err({"kind": "ENOSPC"}, self._path)
            raise self._seam._err(flt, self._path)
        return self._f.write(data)

    def __enter__(self):
        self._f.__enter__()
        return self

    def __exit__(self, *a):
        if self._held is not None and not self._closed:
            self.close()
            return False
        return self._f.__exit__(*a)

    def __iter__(self):
        return iter(self._f)

    def __getattr__(self, name):
        return getattr(self._f, name)


FILES = FileSeam()
