"""Sim: one simulated run = one SimNet + one SimLoop + one Chooser."""

from __future__ import annotations

import asyncio
import contextlib
import gc
import hashlib
import logging
import os
import shutil
import sys
import time

from .net import EPOCH, SimLoop, SimNet

_real_time = time.time
_real_monotonic = time.monotonic

REPO_SRC = os.environ.get("VERIF_SRC") or "/repo/src"


def prepare_process():
    """Once per worker process: import path, silence logging."""
    if REPO_SRC not in sys.path:
        sys.path.insert(0, REPO_SRC)
    logging.disable(logging.CRITICAL)
    try:
        import structlog
        structlog.configure(
            wrapper_class=structlog.make_filtering_bound_logger(50),
            logger_factory=structlog.ReturnLoggerFactory(),
            cache_logger_on_first_use=False,
        )
    except Exception:
        pass
    import warnings
    warnings.simplefilter("ignore")
    from .storage import install_sql_seam
    install_sql_seam()
    _fix_ticket_lengths()
    gc.disable()  # collected explicitly between runs: no finaliser fires mid-run


_tickets_fixed = False
# worlds that study session resumption switch the tickets back on (their digests must then
# ignore sizes: ticket lengths vary)
TICKETS = {"allow": False}


def _fix_ticket_lengths():
    """OpenSSL's stateless TLS 1.3 session tickets have a length that varies by
    16 bytes from handshake to handshake (ASN.1 integers + block padding), which
    would make ciphertext offsets - and with them exact replay - random.  No
    property depends on session resumption, so in simulation server contexts of
    the ssl module send no tickets and pyOpenSSL contexts send stateful
    (fixed-size) ones.  Applied at the library seam so that contexts created
    inside the code under test (start_server) are covered too."""
    global _tickets_fixed
    if _tickets_fixed:
        return
    _tickets_fixed = True
    import ssl
    orig_load = ssl.SSLContext.load_cert_chain

    def load_cert_chain(self, *a, **kw):
        r = orig_load(self, *a, **kw)
        try:
            if self.protocol == ssl.PROTOCOL_TLS_SERVER and not TICKETS["allow"]:
                self.num_tickets = 0
        except Exception:
            pass
        return r
    ssl.SSLContext.load_cert_chain = load_cert_chain
    try:
        from OpenSSL import SSL
        orig_init = SSL.Context.__init__

        def ctx_init(self, *a, **kw):
            orig_init(self, *a, **kw)
            try:
                if not TICKETS["allow"]:
                    self.set_options(SSL.OP_NO_TICKET)
            except Exception:
                pass
        SSL.Context.__init__ = ctx_init
    except Exception:
        pass


import datetime as _real_datetime_mod


class _SimDateTime(_real_datetime_mod.datetime):
    """datetime whose now()/utcnow() read the (patched) time.time: the wall clock of the
    simulation, so that "a year later" is an ordinary jump of the virtual clock."""

    @classmethod
    def now(cls, tz=None):
        return _real_datetime_mod.datetime.fromtimestamp(time.time(), tz)

    @classmethod
    def utcnow(cls):
        return _real_datetime_mod.datetime.fromtimestamp(time.time(), _real_datetime_mod.timezone.utc
                                                         ).replace(tzinfo=None)


class _SimDateTimeModule:
    datetime = _SimDateTime

    def __getattr__(self, name):
        return getattr(_real_datetime_mod, name)


_DT_SHIM = _SimDateTimeModule()
# library modules that stamp rows / compare validity with the wall clock via `datetime.datetime.now`
_WALL_CLOCK_USERS = ("nauyaca.security.tofu",)


@contextlib.contextmanager
def patched_time(net: SimNet):
    # the wall clock may be stepped (NTP correction, VM resume) independently of the
    # monotonic clock: net.wall_offset, changed by worlds through net.step_wall_clock()
    time.time = lambda: EPOCH + net.now + getattr(net, "wall_offset", 0.0)
    time.monotonic = lambda: net.now
    swapped = []
    for name in _WALL_CLOCK_USERS:
        m = sys.modules.get(name)
        if m is None:
            try:
                m = __import__(name, fromlist=["x"])
            except Exception:
                m = None
        if m is not None and getattr(m, "datetime", None) is _real_datetime_mod:
            m.datetime = _DT_SHIM
            swapped.append(m)
    try:
        yield
    finally:
        time.time = _real_time
        time.monotonic = _real_monotonic
        for m in swapped:
            m.datetime = _real_datetime_mod


_scratch_root = None


def scratch_root() -> str:
    global _scratch_root
    if _scratch_root is None:
        base = "/dev/shm" if os.path.isdir("/dev/shm") and os.access("/dev/shm", os.W_OK) else None
        if base is None:
            import tempfile
            base = tempfile.gettempdir()
        parent = os.environ.get("VERIF_SCRATCH_PARENT")
        if parent and os.path.isdir(parent):
            # pool workers leave through os._exit (no atexit): the batch's parent
            # process owns the directory and removes it when the batch is over
            _scratch_root = os.path.join(parent, f"w{os.getpid()}")
        else:
            _scratch_root = os.path.join(base, f"nauyaca-verif-{os.getpid()}")
        os.makedirs(_scratch_root, exist_ok=True)
        import atexit
        atexit.register(lambda p=_scratch_root, pid=os.getpid(): (
            os.getpid() == pid and shutil.rmtree(p, ignore_errors=True)))
    return _scratch_root


def fresh_dir(name="run") -> str:
    d = os.path.join(scratch_root(), name)
    shutil.rmtree(d, ignore_errors=True)
    os.makedirs(d)
    return d


class Sim:
    def __init__(self, ch):
        self.ch = ch
        self.net = SimNet()
        self.loop = SimLoop(self.net)
        from .storage import SEAM
        SEAM.reset(self.net)
        self.status = None
        self.result = None
        self.error = None

    def block_loop(self, at, duration):
        """Fault: the event loop is blocked (a long synchronous callback, a GC or VM pause)
        from virtual time ``at`` for ``duration`` seconds.  The world goes on - peers send,
        segments are delivered into socket buffers - but the loop processes nothing; when it
        comes back it finds the I/O that piled up AND the timers that fell due in one
        iteration."""
        net = self.net

        def blocker():
            target = net.now + duration
            net.stats["loop_blocked"] += 1
            net.log("loopblock", "loop")
            while True:
                tn = net.next_time()
                if tn is None or tn > target:
                    break
                net.advance(tn)
                net.run_due()
            net.advance(target)
        self.loop.call_at(at, blocker)

    def run(self, main, horizon=600.0, max_iterations=200000):
        """Run coroutine ``main`` (a coroutine object) to completion or until
        quiescence / horizon / iteration cap.  Returns the status string."""
        net, loop = self.net, self.loop
        loop.max_iterations = max_iterations
        st = {"s": None}

        def on_horizon():
            if st["s"] is None:
                st["s"] = "horizon"
                net.horizon_hit = True
                loop.stop()

        with patched_time(net):
            task = loop.create_task(main)

            def done(t):
                if st["s"] is None:
                    st["s"] = "done"
                loop.stop()
            task.add_done_callback(done)
            net.at(horizon, on_horizon)
            try:
                loop.run_forever()
            finally:
                pass
            if st["s"] is None:
                if loop.iter_cap_hit:
                    st["s"] = "itercap"
                elif net.quiescent:
                    st["s"] = "quiescent"
                else:
                    st["s"] = "stopped"
            self.status = st["s"]
            if task.done() and not task.cancelled():
                exc = task.exception()
                if exc is not None:
                    self.error = exc
                else:
                    self.result = task.result()
            self._teardown(task)
        return self.status

    def _teardown(self, main_task):
        loop, net = self.loop, self.net
        net.log_enabled = False
        try:
            for _ in range(5):
                tasks = [t for t in asyncio.all_tasks(loop) if not t.done()]
                if not tasks:
                    break
                for t in tasks:
                    t.cancel()
                # let cancellations propagate without advancing far in time
                loop.iter_cap_hit = False
                loop.max_iterations = loop.iterations + 2000
                net.quiescent = False
                stopper = loop.call_soon(loop.stop)
                loop.run_forever()
                del stopper
            # close remaining transports
            for tr in list(loop._transports.values()):
                try:
                    tr.abort()
                except Exception:
                    pass
            loop.max_iterations = loop.iterations + 2000
            loop.call_soon(loop.stop)
            loop.run_forever()
        except BaseException:
            pass
        finally:
            try:
                loop.close()
            except Exception:
                pass
            for obj in list(net.fds.values()):
                try:
                    obj.close()
                except Exception:
                    pass
            net.heap.clear()

    def digest(self, sizes=True) -> str:
        """Digest of the event log.  sizes=False leaves segment sizes out (runs
        with an ECDSA certificate: the signature length varies by a byte or two
        per handshake, so ciphertext sizes are not a function of the tape)."""
        h = hashlib.sha256()
        for ev in self.net.events:
            if not sizes:
                ev = ev[:3]
            h.update(repr(ev).encode())
        return h.hexdigest()[:16]

    def signature(self, sizes=True) -> str:
        """Time-stripped schedule signature: sequence of (kind, role, size bucket)."""
        h = hashlib.sha256()
        for _, kind, who, n in self.net.events:
            role = who.split(".")[-1]
            b = 0 if (n == 0 or not sizes) else n.bit_length()
            h.update(f"{kind}:{role}:{b};".encode())
        return h.hexdigest()[:16]
