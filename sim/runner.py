"""Batch runner: seeds -> runs -> violations -> shrink -> replay file -> evidence.

A property module (props/cXX.py) provides
    PROPERTY, LEVEL, TIERS = {"quick": n, "thorough": n}, RULE (str)
    run_one(ch) -> RunResult
Exit codes: 0 held (possibly with KNOWN-FINDING lines), 1 VIOLATION, 2 HARNESS-ERROR.
"""

from __future__ import annotations

import collections
import concurrent.futures as cf
import faulthandler
import fnmatch
import importlib
import json
import multiprocessing
import os
import signal
import sys
import time
import traceback

from .tape import Chooser, derive_seed

VERIF = os.path.dirname(os.path.dirname(os.path.abspath(__file__)))
# mutant evaluations (tools/eval_mutant.sh) redirect both so that the committed evidence
# always comes from the unchanged tree
REPLAYS = os.environ.get("VERIF_REPLAY_DIR") or os.path.join(VERIF, "replays")
EVIDENCE = os.environ.get("VERIF_EVIDENCE_DIR") or os.path.join(VERIF, "evidence")
KNOWN = os.path.join(VERIF, "known_findings.json")

_perf = time.perf_counter


class Violation:
    __slots__ = ("key", "msg", "details")

    def __init__(self, key, msg, details=None):
        self.key = key
        self.msg = msg
        self.details = details or {}


class RunResult:
    def __init__(self):
        self.violations: list[Violation] = []
        self.stats = collections.Counter()   # fault kinds fired, probes hit, ops
        self.signature = ""                  # schedule signature of this run
        self.digest = ""                     # event digest (replay equality)
        self.sim_seconds = 0.0
        self.sample = None                   # decoded scenario (small, JSON-able)
        self.nontrivial = False

    def violate(self, key, msg, **details):
        for v in self.violations:
            if v.key == key:
                return
        self.violations.append(Violation(key, msg, details))


class HarnessTimeout(Exception):
    pass


def _alarm(signum, frame):
    raise HarnessTimeout("per-run wall clock cap hit")


def load_prop(pid: str):
    return importlib.import_module("props." + pid.lower())


def run_seed_for(verif_seed, pid, tier, idx):
    return derive_seed(verif_seed, pid, idx)


def execute(mod, seed=None, tape=None, labels=False, run_cap=60, idx=None):
    """Run one case.  Returns (RunResult, Chooser)."""
    forced = None
    if tape is None and idx is not None and hasattr(mod, "forced_prefix"):
        forced = mod.forced_prefix(idx)
    ch = Chooser(seed=seed, tape=tape, record_labels=labels, forced=forced)
    # hermetic $HOME per run: code under simulation that falls back to its default store
    # (~/.nauyaca/tofu.db) must neither see nor leave state outside the run
    import shutil
    from .world import scratch_root
    home = os.path.join(scratch_root(), "home")
    shutil.rmtree(home, ignore_errors=True)
    os.makedirs(home)
    os.environ["HOME"] = home
    signal.signal(signal.SIGALRM, _alarm)
    signal.alarm(run_cap)
    try:
        res = mod.run_one(ch)
    except (KeyboardInterrupt, SystemExit, GeneratorExit) as e:
        # raised by code under simulation (e.g. a scripted callback), not by a user: it must
        # never end the checker - least of all with exit status 0
        raise RuntimeError(f"{type(e).__name__} escaped from a simulated run") from e
    finally:
        signal.alarm(0)
    return res, ch


# ---------------------------------------------------------------------------
# worker
# ---------------------------------------------------------------------------

def _worker_chunk(args):
    pid, tier, verif_seed, indices, run_cap = args
    from .world import prepare_process
    prepare_process()
    faulthandler.enable()
    mod = load_prop(pid)
    import gc
    agg = {
        "runs": 0, "stats": collections.Counter(), "sigs": set(), "nontrivial_sigs": set(),
        "sim_seconds": 0.0, "violations": {}, "errors": [], "samples": [],
        "nontrivial_runs": 0, "evals": 0,
    }
    for idx in indices:
        seed = run_seed_for(verif_seed, pid, tier, idx)
        try:
            res, ch = execute(mod, seed=seed, run_cap=run_cap, idx=idx)
        except BaseException as e:  # noqa
            if isinstance(e, (KeyboardInterrupt, SystemExit)):
                raise
            agg["errors"].append((idx, seed, "".join(traceback.format_exception(e))[-3000:]))
            if len(agg["errors"]) > 3:
                break
            continue
        agg["runs"] += 1
        agg["evals"] += getattr(res, "extra_evaluations", 1)
        agg["stats"].update(res.stats)
        agg["sim_seconds"] += res.sim_seconds
        sig = int(res.signature[:15] or "0", 16)
        agg["sigs"].add(sig)
        if res.nontrivial:
            agg["nontrivial_sigs"].add(sig)
            agg["nontrivial_runs"] += 1
        for item, nt in getattr(res, "extra_distinct", ()):
            hsig = derive_seed(repr(item)) >> 4
            agg["sigs"].add(hsig)
            if nt:
                agg["nontrivial_sigs"].add(hsig)
        if res.sample is not None and len(agg["samples"]) < 2:
            agg["samples"].append(res.sample)
        for v in res.violations:
            if v.key not in agg["violations"]:
                agg["violations"][v.key] = (idx, seed, list(ch.tape), v.msg, v.details)
        if agg["runs"] % 50 == 0:
            gc.collect()
    gc.collect()
    return agg


# ---------------------------------------------------------------------------
# shrinking
# ---------------------------------------------------------------------------

def shrink(mod, tape, key, budget_runs=300, budget_s=45.0, run_cap=60):
    """ddmin-style tape minimisation preserving the violation key.
    Returns (tape, candidate_runs, reproduced)."""
    t0 = _perf()
    runs = [0]

    def out_of_budget():
        return runs[0] >= budget_runs or _perf() - t0 > budget_s

    def strip(t):
        t = list(t)
        while t and t[-1] == 0:
            t.pop()
        return t

    def test(t):
        if out_of_budget():
            return None
        runs[0] += 1
        try:
            res, ch = execute(mod, tape=list(t), run_cap=run_cap)
        except BaseException as e:  # noqa
            if isinstance(e, (KeyboardInterrupt, SystemExit)):
                raise
            return None
        if any(v.key == key for v in res.violations):
            return strip(ch.tape[:ch.pos])   # canonical: mod-reduced, consumed part only
        return None

    def better(a, b):
        return (len(a), sum(a)) < (len(b), sum(b))

    best = test(tape)
    if best is None:
        return list(tape), runs[0], False
    changed = True
    while changed and not out_of_budget():
        changed = False
        size = max(1, len(best) // 2)
        while size >= 1 and not out_of_budget():
            i = 0
            while i < len(best) and not out_of_budget():
                r = test(best[:i] + best[i + size:])
                if r is not None and better(r, best):
                    best = r
                    changed = True
                else:
                    i += size
            size //= 2
        i = 0
        while i < len(best) and not out_of_budget():
            if best[i]:
                r = test(best[:i] + [0] + best[i + 1:])
                if r is not None and better(r, best):
                    best = r
                    changed = True
                    continue
                v = best[i]
                while v > 1 and not out_of_budget():
                    v //= 2
                    r = test(best[:i] + [v] + best[i + 1:])
                    if r is not None and better(r, best):
                        best = r
                        changed = True
                    else:
                        break
            i += 1
    return best, runs[0], True


# ---------------------------------------------------------------------------
# known findings
# ---------------------------------------------------------------------------

def load_known():
    try:
        with open(KNOWN) as f:
            data = json.load(f)
    except FileNotFoundError:
        return []
    return data.get("findings", [])


def known_open(pid, key, known):
    for k in known:
        if k.get("property") == pid and k.get("status") == "open" and \
                (k.get("key") == key or fnmatch.fnmatchcase(key, k.get("key", ""))):
            return k
    return None


# ---------------------------------------------------------------------------
# replay files
# ---------------------------------------------------------------------------

def _safe(key):
    return "".join(c if c.isalnum() or c in "-_." else "_" for c in key)[:100]


def write_replay(pid, key, verif_seed, idx, seed, tape, msg, details, mod, shrunk_info):
    os.makedirs(REPLAYS, exist_ok=True)
    res, ch = execute(mod, tape=tape, labels=True)
    v = next((x for x in res.violations if x.key == key), None)
    path = os.path.join(REPLAYS, f"{pid}-{_safe(key)}.json")
    doc = {
        "property": pid, "violation_key": key, "verif_seed": verif_seed,
        "run_index": idx, "run_seed": seed,
        "tier": os.environ.get("VERIF_TIER_EFFECTIVE", "quick"),
        "message": v.msg if v else msg,
        "details": _jsonable(v.details if v else details),
        "tape": ch.tape[:ch.pos], "labels": ch.labels[:ch.pos],
        "scenario": _jsonable(res.sample), "digest": res.digest,
        "reproduced_on_write": v is not None, "shrink": shrunk_info,
        "replay": f"./check replay {os.path.relpath(path, VERIF)}",
    }
    with open(path, "w") as f:
        json.dump(doc, f, indent=1)
    return path


def _jsonable(o, depth=0):
    if depth > 6:
        return repr(o)[:200]
    if isinstance(o, (str, int, float, bool)) or o is None:
        return o
    if isinstance(o, (bytes, bytearray)):
        b = bytes(o)
        return {"bytes": b[:200].decode("latin-1"), "len": len(b)}
    if isinstance(o, dict):
        return {str(k): _jsonable(v, depth + 1) for k, v in list(o.items())[:60]}
    if isinstance(o, (list, tuple, set, frozenset)):
        return [_jsonable(v, depth + 1) for v in list(o)[:60]]
    return repr(o)[:300]


def cmd_replay(path):
    from .world import prepare_process
    prepare_process()
    with open(path) as f:
        doc = json.load(f)
    pid = doc["property"]
    os.environ["VERIF_TIER_EFFECTIVE"] = doc.get("tier", "quick")
    print(f"REPLAY property={pid} key={doc['violation_key']} file={path}")
    mod = load_prop(pid)
    try:
        res, ch = execute(mod, tape=doc["tape"], labels=True)
    except BaseException as e:  # noqa
        print("HARNESS-ERROR replay raised:", "".join(traceback.format_exception(e))[-2000:])
        return 2
    hit = [v for v in res.violations if v.key == doc["violation_key"]]
    if not hit:
        others = [v.key for v in res.violations]
        print(f"NOT-REPRODUCED (the tree now satisfies this case); other violations: {others}")
        return 0
    if doc.get("digest") and res.digest != doc["digest"]:
        print(f"NOTE digest differs from the recorded one ({res.digest} vs {doc['digest']}): "
              f"the code under test changed since the file was written, or replay is "
              f"nondeterministic")
    v = hit[0]
    print("message:", v.msg)
    print("details:", json.dumps(_jsonable(v.details), indent=1)[:4000])
    print(f"VIOLATION property={pid} replay={path}")
    return 1


# ---------------------------------------------------------------------------
# main batch
# ---------------------------------------------------------------------------

def cmd_check(pid, tier, runs_override=None, workers=None, verbose=True):
    t0 = _perf()
    verif_seed = int(os.environ.get("VERIF_SEED", "1") or "1")
    pid = pid.upper()
    print(f"VERIF_SEED={verif_seed} property={pid} tier={tier}", flush=True)
    sys.path.insert(0, VERIF)
    os.environ["VERIF_TIER_EFFECTIVE"] = tier
    import glob
    for old in glob.glob(os.path.join(REPLAYS, f"{pid}-*.json")):
        try:
            os.remove(old)      # replay files of earlier runs of this check are stale
        except OSError:
            pass
    mod = load_prop(pid)
    total = runs_override or mod.TIERS[tier]
    run_cap = getattr(mod, "RUN_CAP_S", 60)
    wall_cap = getattr(mod, "WALL_CAP_S", {"quick": 600, "thorough": 6 * 3600})[tier]
    nw = workers or int(os.environ.get("VERIF_WORKERS", "0") or 0) or min(16, os.cpu_count() or 1)
    chunk = max(1, min(getattr(mod, "CHUNK", 200), (total + nw * 4 - 1) // (nw * 4)))
    # deal indices round-robin into chunks so the set of seeds is worker-count independent
    chunks = [list(range(s, min(total, s + chunk))) for s in range(0, total, chunk)]
    ctx = multiprocessing.get_context("fork")
    agg_stats = collections.Counter()
    sigs, nsigs = set(), set()
    sim_seconds = 0.0
    runs = 0
    evals = 0
    nontrivial_runs = 0
    violations = {}
    errors = []
    samples = []
    harness_error = None
    import shutil
    import tempfile
    shm = "/dev/shm" if os.path.isdir("/dev/shm") and os.access("/dev/shm", os.W_OK) else tempfile.gettempdir()
    batch_scratch = os.path.join(shm, f"nauyaca-verif-batch-{os.getpid()}")
    os.makedirs(batch_scratch, exist_ok=True)
    os.environ["VERIF_SCRATCH_PARENT"] = batch_scratch
    import atexit
    atexit.register(shutil.rmtree, batch_scratch, True)
    with cf.ProcessPoolExecutor(max_workers=nw, mp_context=ctx) as ex:
        futs = [ex.submit(_worker_chunk, (pid, tier, verif_seed, c, run_cap)) for c in chunks]
        try:
            for f in cf.as_completed(futs, timeout=wall_cap):
                a = f.result()
                runs += a["runs"]
                evals += a["evals"]
                agg_stats.update(a["stats"])
                sigs |= a["sigs"]
                nsigs |= a["nontrivial_sigs"]
                nontrivial_runs += a["nontrivial_runs"]
                sim_seconds += a["sim_seconds"]
                errors.extend(a["errors"])
                if len(samples) < 4:
                    samples.extend(a["samples"][:1])
                for k, v in a["violations"].items():
                    if k not in violations or v[0] < violations[k][0]:
                        violations[k] = v
        except cf.TimeoutError:
            harness_error = f"batch wall cap {wall_cap}s hit"
            for f in futs:
                f.cancel()
        except cf.process.BrokenProcessPool as e:
            harness_error = f"worker died: {e}"
    wall_batch = _perf() - t0
    os.environ.pop("VERIF_SCRATCH_PARENT", None)
    shutil.rmtree(batch_scratch, ignore_errors=True)
    known = load_known()
    out_viol = []
    known_hits = []
    from .world import prepare_process
    if violations:
        prepare_process()
    shrink_budget = 40.0 if tier == "quick" else 120.0
    per = max(5.0, shrink_budget / max(1, len(violations)))
    for key in sorted(violations, key=lambda k: violations[k][0]):
        idx, seed, tape, msg, details = violations[key]
        kf = known_open(pid, key, known)
        if kf is not None:
            known_hits.append((key, kf, msg))
            continue
        best, nruns, ok = shrink(mod, tape, key, budget_runs=400, budget_s=per, run_cap=run_cap)
        path = write_replay(pid, key, verif_seed, idx, seed, best if ok else tape, msg, details,
                            mod, {"runs": nruns, "from": len(tape), "to": len(best),
                                  "reproduced": ok})
        out_viol.append((key, path, msg))
    # evidence ---------------------------------------------------------------
    wall = _perf() - t0
    ev = {
        "property_id": pid, "tier": tier, "seed": verif_seed, "level": mod.LEVEL,
        "coverage": {
            "evaluations": max(evals, runs),
            "runs": runs,
            "distinct_nontrivial": len(nsigs),
            "distinct_signatures": len(sigs),
            "nontrivial_runs": nontrivial_runs,
            "rule": mod.RULE,
            "samples": _jsonable(samples[:3]) or ["(none)"],
            "runs_per_hour": int(runs / max(wall_batch, 1e-6) * 3600),
            "simulated_seconds": round(sim_seconds, 1),
            "first_run_seed": run_seed_for(verif_seed, pid, tier, 0),
            "last_run_seed": run_seed_for(verif_seed, pid, tier, max(0, total - 1)),
            "workers": nw,
            "faults_and_probes": dict(sorted(agg_stats.items())),
            "components": getattr(mod, "COMPONENTS", {}),
            "exhaustive": False,
        },
        "assumptions": getattr(mod, "ASSUMPTIONS", []),
        "wall_s": round(wall, 2),
        "violations": len(out_viol),
        "known_findings_hit": [k for k, _, _ in known_hits],
    }
    os.makedirs(EVIDENCE, exist_ok=True)
    with open(os.path.join(EVIDENCE, f"{pid}.json"), "w") as f:
        json.dump(ev, f, indent=1)
    # report -------------------------------------------------------------------
    print(f"runs={runs}/{total} wall={wall:.1f}s runs/h={ev['coverage']['runs_per_hour']} "
          f"sim_s={sim_seconds:.0f} distinct_sigs={len(sigs)} nontrivial_sigs={len(nsigs)}")
    if verbose:
        print("fired:", json.dumps(dict(sorted(agg_stats.items()))))
    for p in getattr(mod, "PROBES", []):
        if agg_stats.get(p, 0) == 0:
            print(f"WARN unreached-probe={p}")
    for key, kf, msg in known_hits:
        print(f"KNOWN-FINDING: property={pid} key={key} {kf.get('what', '')}")
    for key, path, msg in out_viol:
        print(f"violation key={key}: {msg}")
        print(f"VIOLATION property={pid} replay={path}")
    if errors:
        for idx, seed, tb in errors[:3]:
            print(f"HARNESS-ERROR run_index={idx} seed={seed}\n{tb}")
        return 2 if not out_viol else 1
    if harness_error:
        print(f"HARNESS-ERROR {harness_error}")
        return 2 if not out_viol else 1
    if runs < total:
        print(f"HARNESS-ERROR only {runs} of {total} runs completed")
        return 2
    return 1 if out_viol else 0


def main(argv):
    sys.path.insert(0, VERIF)
    if len(argv) >= 2 and argv[0] == "replay":
        return cmd_replay(argv[1])
    if not argv:
        print("usage: check <Cxx> [--tier quick|thorough] [--runs N] | check replay <file>")
        return 2
    pid = argv[0]
    tier = os.environ.get("VERIF_TIER") or "quick"
    runs = None
    workers = None
    i = 1
    while i < len(argv):
        if argv[i] == "--tier":
            tier = argv[i + 1]
            i += 2
        elif argv[i] == "--runs":
            runs = int(argv[i + 1])
            i += 2
        elif argv[i] == "--workers":
            workers = int(argv[i + 1])
            i += 2
        else:
            i += 1
    if pid == "selftest":
        from . import selftest
        return selftest.main(argv[1:])
    return cmd_check(pid, tier, runs, workers)
