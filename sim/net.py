"""Simulated kernel: virtual clock, TCP-like byte pipes, fake sockets, fake
selector, and the event loop that runs the REAL asyncio selector transports
(and therefore the real sslproto.SSLProtocol) on top of them.

Trusted model of a TCP socket (kept small on purpose):
  * a connection is two independent FIFO, lossless byte pipes;
  * ``send`` accepts at most the free space (capacity - in flight - unread at
    the receiver) and raises BlockingIOError when there is none;
  * bytes arrive after a delay and in segments chosen by a *policy* object
    (the seeded scheduler); arrival times are monotone per pipe;
  * ``recv`` returns what has arrived, b"" after the peer's FIN,
    ConnectionResetError after an RST, BlockingIOError otherwise;
  * close()/shutdown(WR) enqueue a FIN behind the bytes already accepted;
  * an RST is delivered in order behind earlier bytes, kills both directions;
  * a pipe can be *stalled* from a byte offset on: nothing at or beyond the
    offset (nor FIN/RST) is ever delivered.
Message loss / duplication / reordering do not exist above a TCP socket and
are deliberately not injectable.
"""

from __future__ import annotations

import asyncio
import collections
import errno
import math
import heapq
import selectors
import socket
from asyncio import base_events, selector_events

EPOCH = 1_700_000_000.0  # time.time() = EPOCH + virtual now


class Quiescent(Exception):
    pass


# ---------------------------------------------------------------------------
# policies
# ---------------------------------------------------------------------------

class WholePolicy:
    """Deliver every send unsplit after a fixed latency."""

    def __init__(self, latency: float = 0.001):
        self.latency = latency

    def plan(self, pipe, n):
        return [(self.latency, n)]


class DrawnPolicy:
    """Segmentation and delay drawn from the choice tape.

    mode 0: whole sends, fixed latency (no draws at all)
    mode 1: a few random cuts per send
    mode 2: one byte per segment for the first ``dribble_limit`` bytes
    mode 3: cuts around the ``hot`` stream offsets (+-1)
    Delays are drawn from ``delays`` (index 0 = base latency).
    """

    def __init__(self, ch, label, mode, latency=0.001, delays=None, hot=(),
                 dribble_limit=4096, max_cuts=4):
        self.ch = ch
        self.label = label
        self.mode = mode
        self.latency = latency
        self.delays = delays or [latency, 0.0, latency * 5, latency * 50]
        self.hot = sorted(set(hot))
        self.dribble_limit = dribble_limit
        self.max_cuts = max_cuts

    def _delay(self):
        if len(self.delays) == 1:
            return self.delays[0]
        return self.delays[self.ch.choose(self.label + ".delay", len(self.delays))]

    def plan(self, pipe, n):
        if self.mode == 0 or n <= 0:
            return [(self.latency, n)]
        start = pipe.sent
        cuts = set()
        if self.mode == 1:
            k = self.ch.choose(self.label + ".ncuts", self.max_cuts + 1)
            for _ in range(k):
                if n > 1:
                    cuts.add(1 + self.ch.choose(self.label + ".cut", n - 1))
        elif self.mode == 2:
            lim = max(0, min(n, self.dribble_limit - start))
            cuts.update(range(1, lim + 1))
        elif self.mode == 3:
            for h in self.hot:
                for d in (-1, 0, 1):
                    o = h + d - start
                    if 0 < o < n and self.ch.choose(self.label + ".hot", 2):
                        cuts.add(o)
        cuts.discard(n)
        edges = [0] + sorted(cuts) + [n]
        out = []
        for i, (a, b) in enumerate(zip(edges, edges[1:])):
            if b > a:
                if self.mode == 2:
                    # a true dribble: every segment arrives at its own instant, i.e. in its own
                    # read (equal arrival times would be coalesced by the receiving socket)
                    out.append((self.latency + i * 0.0004, b - a))
                else:
                    out.append((self._delay(), b - a))
        return out


# ---------------------------------------------------------------------------
# pipes and endpoints
# ---------------------------------------------------------------------------

DATA, FIN, RST = 0, 1, 2


class Pipe:
    """One direction of a connection."""

    __slots__ = ("net", "cap", "policy", "q", "inflight", "rx", "rx_fin", "rx_rst",
                 "sent", "delivered", "last_arrival", "stall_at", "closed_tx",
                 "dst", "src", "name", "dead", "deliveries", "first_rx_time",
                 "send_log", "held", "corrupt_at")

    def __init__(self, net, cap, policy, name):
        self.net = net
        self.cap = cap
        self.policy = policy
        self.q = collections.deque()
        self.inflight = 0
        self.rx = bytearray()
        self.rx_fin = False
        self.rx_rst = False
        self.sent = 0          # bytes accepted from the sender
        self.delivered = 0     # bytes that reached the receiver's rx buffer
        self.last_arrival = 0.0
        self.stall_at = None   # absolute stream offset; None = no stall
        self.closed_tx = False
        self.dst = None        # receiving Endpoint
        self.src = None
        self.name = name
        self.dead = False      # RST processed: nothing flows any more
        self.deliveries = 0
        self.first_rx_time = None
        self.send_log = []     # (virtual time, stream offset, nbytes) per accepted send
        self.held = 0
        self.corrupt_at = None  # absolute stream offset of one byte that is inverted in transit

    def free(self):
        return self.cap - self.inflight - len(self.rx)

    def push(self, data) -> int:
        if self.dead or self.closed_tx:
            return 0
        n = min(len(data), max(0, self.free()))
        if n <= 0:
            return 0
        net = self.net
        net.gseq += 1
        self.send_log.append((net.now, self.sent, n, net.gseq))
        off = 0
        mv = bytes(data[:n])
        if self.corrupt_at is not None and self.sent <= self.corrupt_at < self.sent + n:
            k = self.corrupt_at - self.sent
            mv = mv[:k] + bytes([mv[k] ^ 0xFF]) + mv[k + 1:]
            net.log("corrupt", self.name)
        for delay, ln in self.policy.plan(self, n):
            chunk = mv[off:off + ln]
            off += ln
            self._enqueue(DATA, chunk, delay)
        self.sent += n
        self.inflight += n
        return n

    def _enqueue(self, kind, chunk, delay):
        net = self.net
        t = net.now + delay
        if t < self.last_arrival:
            t = self.last_arrival
        self.last_arrival = t
        self.q.append((kind, chunk))
        net.at(t, self._deliver)

    def push_ctl(self, kind, delay=None):
        if self.dead:
            return
        if kind == FIN:
            if self.closed_tx:
                return
            self.closed_tx = True
        if delay is None:
            delay = getattr(self.policy, "latency", 0.001)
        self._enqueue(kind, b"", delay)

    def _deliver(self):
        if self.dead or not self.q:
            return
        kind, chunk = self.q[0]
        if self.stall_at is not None:
            hold = False
            if kind == DATA:
                if self.delivered + len(chunk) > self.stall_at:
                    # deliver the part before the stall point, hold the rest forever
                    if self.delivered < self.stall_at:
                        k = self.stall_at - self.delivered
                        self.q[0] = (DATA, chunk[k:])
                        self._arrive(chunk[:k])
                    hold = True
            elif self.delivered >= self.stall_at:
                hold = True
            if hold:
                # the item stays queued; its delivery event is consumed
                self.held += 1
                self.net.stats["stall_held"] += 1
                return
        self.q.popleft()
        if kind == DATA:
            self._arrive(chunk)
        elif kind == FIN:
            self.rx_fin = True
            self.net.log("fin", self.name)
            self.dst._notify()
        else:
            self.rx_rst = True
            self.dead = True
            self.net.log("rst", self.name)
            # the reverse direction dies too: what the victim still had in
            # flight towards the resetter is gone
            rev = self.dst.tx
            rev.dead = True
            self.dst._notify()

    def _arrive(self, chunk):
        if not chunk:
            return
        self.rx += chunk
        n = len(chunk)
        self.inflight -= n
        self.delivered += n
        self.deliveries += 1
        if self.first_rx_time is None:
            self.first_rx_time = self.net.now
        self.net.log("seg", self.name, n)
        self.dst._notify()

    def time_of_offset(self, off):
        """Virtual time at which the send carrying stream byte ``off`` was
        accepted from the sender (None if never)."""
        for t, start, n, _ in self.send_log:
            if start <= off < start + n:
                return t
        return None

    def seq_of_offset(self, off):
        """Global event sequence number of the send carrying stream byte ``off``."""
        for _, start, n, q in self.send_log:
            if start <= off < start + n:
                return q
        return None


class Endpoint:
    """One side of a connection.  Used directly by scripted raw peers and
    wrapped by FakeSocket for asyncio."""

    def __init__(self, net, name, addr, peer_addr):
        self.net = net
        self.name = name
        self.addr = addr
        self.peer_addr = peer_addr
        self.tx: Pipe = None
        self.rxp: Pipe = None
        self.on_event = None      # raw peers: callback() on any rx change
        self.closed = False
        self.sock = None

    def _notify(self):
        cb = self.on_event
        if cb is not None:
            cb()

    # raw API ---------------------------------------------------------------
    def send(self, data) -> int:
        return self.tx.push(data)

    def recv_all(self) -> bytes:
        rx = self.rxp.rx
        if not rx:
            return b""
        out = bytes(rx)
        del rx[:]
        return out

    def recv_n(self, n) -> bytes:
        rx = self.rxp.rx
        out = bytes(rx[:n])
        del rx[:n]
        return out

    def fin(self):
        self.tx.push_ctl(FIN)

    def rst(self):
        self.tx.push_ctl(RST)
        # our own side is dead immediately
        self.rxp.dead = True
        self.closed = True

    def close(self):
        if not self.closed:
            self.closed = True
            self.tx.push_ctl(FIN)


class FakeSocket:
    family = socket.AF_INET
    type = socket.SOCK_STREAM
    proto = socket.IPPROTO_TCP

    def __init__(self, net, ep: Endpoint):
        self.net = net
        self.ep = ep
        ep.sock = self
        self.fd = net.new_fd(self)
        self._closed = False
        self._shut_wr = False

    # readiness -------------------------------------------------------------
    def readable(self):
        p = self.ep.rxp
        return bool(p.rx) or p.rx_fin or p.rx_rst

    def writable(self):
        t = self.ep.tx
        return t.dead or t.free() > 0

    # socket API ------------------------------------------------------------
    def fileno(self):
        return self.fd if not self._closed else -1

    def setblocking(self, flag):
        pass

    def settimeout(self, t):
        pass

    def gettimeout(self):
        return 0.0

    def setsockopt(self, *a):
        pass

    def getsockopt(self, *a):
        return 0

    def getsockname(self):
        return self.ep.addr

    def getpeername(self):
        return self.ep.peer_addr

    def recv(self, n, flags=0):
        if self._closed:
            raise OSError(errno.EBADF, "Bad file descriptor")
        p = self.ep.rxp
        if p.rx:
            out = bytes(p.rx[:n])
            del p.rx[:n]
            return out
        if p.rx_rst:
            raise ConnectionResetError(errno.ECONNRESET, "Connection reset by peer")
        if p.rx_fin:
            return b""
        raise BlockingIOError(errno.EAGAIN, "Resource temporarily unavailable")

    def recv_into(self, buf, nbytes=0, flags=0):
        mv = memoryview(buf)
        n = len(mv) if not nbytes else min(nbytes, len(mv))
        data = self.recv(n)
        mv[:len(data)] = data
        return len(data)

    def send(self, data, flags=0):
        if self._closed:
            raise OSError(errno.EBADF, "Bad file descriptor")
        if self._shut_wr:
            raise BrokenPipeError(errno.EPIPE, "Broken pipe")
        t = self.ep.tx
        if t.dead:
            if self.ep.rxp.rx_rst:
                raise ConnectionResetError(errno.ECONNRESET, "Connection reset by peer")
            if self.ep.rxp.dead:
                raise BrokenPipeError(errno.EPIPE, "Broken pipe")
            # the peer has reset the connection but its RST has not reached us
            # yet: the kernel still accepts the bytes (they go nowhere)
            return len(data)
        if not len(data):
            return 0
        n = t.push(data)
        if n == 0:
            raise BlockingIOError(errno.EAGAIN, "Resource temporarily unavailable")
        return n

    def sendmsg(self, buffers, *a):
        total = 0
        for b in buffers:
            b = bytes(b)
            if not b:
                continue
            try:
                n = self.send(b)
            except BlockingIOError:
                if total:
                    return total
                raise
            total += n
            if n < len(b):
                break
        return total

    def shutdown(self, how):
        if how in (socket.SHUT_WR, socket.SHUT_RDWR) and not self._shut_wr:
            self._shut_wr = True
            self.ep.tx.push_ctl(FIN)

    def close(self):
        if self._closed:
            return
        self._closed = True
        try:
            self.net.release_fd(self.fd)
            if not self._shut_wr:
                self.ep.close()
            self.ep.closed = True
            self.net.log("sockclose", self.ep.name)
        except Exception:
            pass  # GC finalisers after the net is gone

    def detach(self):
        return self.fd

    def __del__(self):
        pass


class FakeListener:
    family = socket.AF_INET
    type = socket.SOCK_STREAM
    proto = socket.IPPROTO_TCP

    def __init__(self, net, host, port):
        self.net = net
        self.host = host
        self.port = port
        self.queue = collections.deque()
        self.fd = net.new_fd(self)
        self._closed = False

    def readable(self):
        return bool(self.queue)

    def writable(self):
        return False

    def fileno(self):
        return self.fd if not self._closed else -1

    def setblocking(self, f):
        pass

    def listen(self, n=0):
        pass

    def setsockopt(self, *a):
        pass

    def getsockname(self):
        return (self.host, self.port)

    def accept(self):
        if not self.queue:
            raise BlockingIOError(errno.EAGAIN, "no connection")
        ep = self.queue.popleft()
        s = FakeSocket(self.net, ep)
        return s, ep.peer_addr

    def close(self):
        if self._closed:
            return
        self._closed = True
        try:
            self.net.release_fd(self.fd)
            self.net.listeners.pop((self.host, self.port), None)
        except Exception:
            pass


class FakeSelector(selectors._BaseSelectorImpl):
    def __init__(self, net):
        super().__init__()
        self.net = net

    def select(self, timeout=None):
        net = self.net
        net.run_due()
        ready = self._ready()
        if ready or (timeout is not None and timeout <= 0):
            return ready
        while True:
            tn = net.next_time()
            deadline = None
            if timeout is not None:
                deadline = net.now + timeout
                sched = net.loop._scheduled
                if sched:
                    w = sched[0]._when
                    if abs(w - deadline) < 1e-6:
                        deadline = w
            if tn is None and deadline is None:
                net.quiescent = True
                net.loop.stop()
                return []
            if deadline is not None and (tn is None or deadline <= tn):
                net.advance(deadline)
                net.run_due()
                return self._ready()
            net.advance(tn)
            net.run_due()
            ready = self._ready()
            if ready:
                return ready
            if net.loop._stopping or net.loop._ready:
                # a network event resolved a future / scheduled a callback
                return []
            if timeout is not None:
                timeout = max(0.0, deadline - net.now)

    def _ready(self):
        out = []
        fdmap = self.net.fds
        for fd, key in self._fd_to_key.items():
            obj = fdmap.get(fd)
            if obj is None:
                continue
            ev = 0
            if key.events & selectors.EVENT_READ and obj.readable():
                ev |= selectors.EVENT_READ
            if key.events & selectors.EVENT_WRITE and obj.writable():
                ev |= selectors.EVENT_WRITE
            if ev:
                out.append((key, ev))
        if len(out) > 1:
            out.sort(key=lambda kv: kv[0].fd)
            order = self.net.ready_order
            if order is not None:
                out = order(out)
        return out


class SimNet:
    def __init__(self):
        self.now = 0.0
        self.heap = []
        self.seq = 0
        self.fds = {}
        self.next_fd = 1000
        self.listeners = {}       # (host, port) -> FakeListener | raw acceptor callable
        self.dns = {}             # name -> canonical host
        self.loop = None
        self.quiescent = False
        self.stats = collections.Counter()
        self.events = []          # compact event log (for digests / signatures)
        self.log_enabled = True
        self.ready_order = None
        self.conn_seq = 0
        self.horizon_hit = False
        self.connect_log = []     # (time, host, port, outcome)
        self.gseq = 0             # global event sequence (orders events inside one instant)
        self.max_events = 200000

    # time -------------------------------------------------------------------
    def advance(self, t):
        if t > self.now:
            self.now = t

    def at(self, t, fn):
        self.seq += 1
        heapq.heappush(self.heap, (t, self.seq, fn))

    def after(self, d, fn):
        self.at(self.now + d, fn)

    def next_time(self):
        return self.heap[0][0] if self.heap else None

    def run_due(self):
        h = self.heap
        now = self.now
        while h and h[0][0] <= now:
            _, _, fn = heapq.heappop(h)
            fn()

    def log(self, kind, who, n=0):
        if self.log_enabled and len(self.events) < self.max_events:
            self.events.append((round(self.now, 6), kind, who, n))

    # fds ----------------------------------------------------------------------
    def new_fd(self, obj):
        fd = self.next_fd
        self.next_fd += 1
        self.fds[fd] = obj
        return fd

    def release_fd(self, fd):
        self.fds.pop(fd, None)

    # connections ----------------------------------------------------------------
    def ip_of(self, host):
        """Stable simulated address of a (canonical) host name; literal addresses map to
        themselves."""
        if not isinstance(host, str) or not any(c.isalpha() for c in host.split(":")[0]) or ":" in host:
            return host
        table = self.__dict__.setdefault("_ips", {})
        if host not in table:
            table[host] = "10.9.%d.%d" % (len(table) // 250, 1 + len(table) % 250)
        return table[host]

    def step_wall_clock(self, at, delta):
        """Fault: at virtual time ``at`` the wall clock (time.time, datetime.now) jumps by
        ``delta`` seconds; the monotonic clock and every loop timer are unaffected."""
        def step():
            self.wall_offset = getattr(self, "wall_offset", 0.0) + delta
            self.stats["wall_clock_step"] += 1
            self.log("wallstep", "clock")
        self.at(at, step)

    def resolve(self, host):
        # what a real resolver is handed: socket.getaddrinfo (and ssl's server_hostname) encode a
        # str host with the "idna" codec - nameprep: NFKC + case folding, so full-width or
        # otherwise "compatible" spellings are the SAME name - and DNS names are case-insensitive
        h = host
        if isinstance(h, str):
            if not h.isascii():
                try:
                    h = h.encode("idna").decode("ascii")
                except UnicodeError:
                    pass
            h = h.lower()
        return self.dns.get(h, h)

    def make_pair(self, caddr, saddr, policy_c2s, policy_s2c, cap_c2s=65536, cap_s2c=65536,
                  tag=None):
        self.conn_seq += 1
        tag = tag or f"c{self.conn_seq}"
        c = Endpoint(self, tag + ".cli", caddr, saddr)
        s = Endpoint(self, tag + ".srv", saddr, caddr)
        c2s = Pipe(self, cap_c2s, policy_c2s, tag + ".c2s")
        s2c = Pipe(self, cap_s2c, policy_s2c, tag + ".s2c")
        c.tx, c.rxp = c2s, s2c
        s.tx, s.rxp = s2c, c2s
        c2s.src, c2s.dst = c, s
        s2c.src, s2c.dst = s, c
        return c, s

    def register_raw_listener(self, host, port, acceptor):
        """acceptor(server_endpoint) is called when a connection is accepted;
        acceptor may have attributes: link(conn_index)->dict for link config."""
        self.listeners[(host, port)] = acceptor


class SimLoop(selector_events.BaseSelectorEventLoop):
    """The real selector event loop over the fake kernel."""

    def __init__(self, net: SimNet):
        self.net = net
        net.loop = self
        self.exceptions = []
        self.iterations = 0
        self.max_iterations = 200000
        self.iter_cap_hit = False
        super().__init__(FakeSelector(net))
        self._clock_resolution = 1e-9
        self.link_for_connect = None   # callable(host, port) -> dict
        self.client_port = 40000

    # clock ------------------------------------------------------------------
    def time(self):
        return self.net.now

    # self pipe: not needed (single thread, no signals) -------------------------
    def _make_self_pipe(self):
        self._ssock = None
        self._csock = None

    def _close_self_pipe(self):
        pass

    def _write_to_self(self):
        pass

    def _run_once(self):
        # asyncio fires a timer when `when < time() + resolution`; far into virtual time one
        # ulp of the clock exceeds a fixed 1 ns and a timer due exactly "now" would never fire
        self._clock_resolution = max(1e-9, 4 * math.ulp(self.net.now))
        self.iterations += 1
        if self.iterations > self.max_iterations:
            self.iter_cap_hit = True
            self.stop()
        super()._run_once()

    def call_exception_handler(self, context):
        exc = context.get("exception")
        self.exceptions.append((context.get("message"), type(exc).__name__ if exc else None,
                                str(exc) if exc else None))

    def run_in_executor(self, executor, func, *args):
        """Simulated worker thread: the job runs inline, atomically, either at once or - when
        the world sets ``executor_delay`` (a stalled storage/DNS/... call inside the thread) -
        that much virtual time later.  Like a real thread that has started, a delayed job
        cannot be cancelled: it runs to completion even if nobody waits for it any more."""
        fut = self.create_future()
        delay = float(getattr(self, "executor_delay", 0.0) or 0.0)

        def run():
            if fut.cancelled() and not delay:
                return
            try:
                r = func(*args)
            except BaseException as e:  # noqa
                if not fut.done():
                    fut.set_exception(e)
                return
            if not fut.done():
                fut.set_result(r)
        if delay:
            self.net.stats["executor_job_stalled"] += 1
            self.net.after(delay, run)
        else:
            self.call_soon(run)
        return fut

    async def getaddrinfo(self, host, port, *, family=0, type=0, proto=0, flags=0):
        h = self.net.resolve(host)
        return [(socket.AF_INET, socket.SOCK_STREAM, 6, "", (h, port))]

    # servers --------------------------------------------------------------------
    async def create_server(self, protocol_factory, host=None, port=None, *,
                            family=0, flags=0, sock=None, backlog=100, ssl=None,
                            reuse_address=None, reuse_port=None,
                            ssl_handshake_timeout=None, ssl_shutdown_timeout=None,
                            start_serving=True):
        if isinstance(ssl, bool):
            raise TypeError("ssl argument must be an SSLContext or None")
        if ssl_handshake_timeout is not None and ssl is None:
            raise ValueError("ssl_handshake_timeout is only meaningful with ssl")
        host = self.net.resolve(host or "0.0.0.0")
        lsock = FakeListener(self.net, host, port)
        if (host, port) in self.net.listeners:
            raise OSError(errno.EADDRINUSE, "Address already in use")
        self.net.listeners[(host, port)] = lsock
        server = base_events.Server(self, [lsock], protocol_factory, ssl, backlog,
                                    ssl_handshake_timeout, ssl_shutdown_timeout)
        if start_serving:
            server._start_serving()
            await asyncio.sleep(0)
        return server

    # clients ----------------------------------------------------------------------
    async def create_connection(self, protocol_factory, host=None, port=None, *,
                                ssl=None, family=0, proto=0, flags=0, sock=None,
                                local_addr=None, server_hostname=None,
                                ssl_handshake_timeout=None, ssl_shutdown_timeout=None,
                                happy_eyeballs_delay=None, interleave=None,
                                all_errors=False):
        if server_hostname is not None and not ssl:
            raise ValueError("server_hostname is only meaningful with ssl")
        if server_hostname is None and ssl:
            server_hostname = host
        if sock is None:
            sock = await self.sim_connect(host, port)
        transport, protocol = await self._create_connection_transport(
            sock, protocol_factory, ssl, server_hostname,
            ssl_handshake_timeout=ssl_handshake_timeout,
            ssl_shutdown_timeout=ssl_shutdown_timeout)
        return transport, protocol

    async def sim_connect(self, host, port):
        net = self.net
        h = net.resolve(host)
        link = self.link_for_connect(h, port) if self.link_for_connect else {}
        outcome = link.get("outcome", "accept")
        latency = link.get("connect_latency", 0.001)
        target = net.listeners.get((h, port))
        net.connect_log.append((net.now, h, port, outcome if target is not None else "refused"))
        fut = self.create_future()
        if outcome == "blackhole":
            net.stats["connect_blackhole"] += 1
            await fut  # never resolved; cancelled by the caller's timeout
        if target is None or outcome == "refuse":
            net.stats["connect_refused"] += 1
            net.after(latency, lambda: fut.done() or fut.set_exception(
                ConnectionRefusedError(errno.ECONNREFUSED, "Connection refused")))
            await fut
        self.client_port += 1
        caddr = (link.get("src_ip", "10.0.0.1"), self.client_port)
        # what a connected socket reports as its peer is an ADDRESS, never the name that was
        # resolved: every simulated host name has a stable address of its own
        saddr = (net.ip_of(h), port)
        c, s = net.make_pair(caddr, saddr,
                             link.get("c2s") or WholePolicy(latency),
                             link.get("s2c") or WholePolicy(latency),
                             link.get("cap_c2s", 65536), link.get("cap_s2c", 65536))
        # one byte inverted in transit at an absolute stream offset (per direction)
        if link.get("corrupt_s2c") is not None:
            s.tx.corrupt_at = link["corrupt_s2c"]
        if link.get("corrupt_c2s") is not None:
            c.tx.corrupt_at = link["corrupt_c2s"]

        def arrive():
            tgt = net.listeners.get((h, port))
            if tgt is None:
                if not fut.done():
                    fut.set_exception(ConnectionRefusedError(errno.ECONNREFUSED, "refused"))
                return
            if isinstance(tgt, FakeListener):
                tgt.queue.append(s)
            else:
                tgt(s)
            if not fut.done():
                fut.set_result(None)
        net.after(latency, arrive)
        await fut
        net.stats["connect_ok"] += 1
        return FakeSocket(net, c)


def raw_connect(net: SimNet, host, port, src=("10.0.0.9", 50000), c2s=None, s2c=None,
                cap_c2s=65536, cap_s2c=65536, tag=None):
    """A scripted raw peer connects to a listener.  Returns its Endpoint (or
    None if nobody listens)."""
    h = net.resolve(host)
    tgt = net.listeners.get((h, port))
    if tgt is None:
        return None
    c, s = net.make_pair(src, (h, port), c2s or WholePolicy(), s2c or WholePolicy(),
                         cap_c2s, cap_s2c, tag)
    if isinstance(tgt, FakeListener):
        tgt.queue.append(s)
    else:
        tgt(s)
    return c
