"""C15 - silent peers are always disconnected within the timeout.

Fault enumeration under virtual time: for four representative requests the
peer stalls after EVERY plaintext byte offset in all three transport modes,
and after EVERY ciphertext byte offset of its handshake flights (and the first
application record) on both TLS backends.  Further seeded runs race the timer
against late data (T-e, T, T+e), slow handlers / middleware, dribbling peers
and disconnects.

Oracle: the server ends the connection no later than accept + T_handshake + e
when no TLS session was established, and no later than session + T_request + e
otherwise, the peer then first decrypting exactly one well-formed 40 response;
once the complete request was delivered no timeout fires however slow the
handler is.
"""

from __future__ import annotations

import asyncio
import hashlib

from sim import fixtures as fx
from sim import serverwire as sw
from sim.net import WholePolicy, raw_connect
from sim.peers import RawPeer
from sim.runner import RunResult
from sim.world import Sim

PROPERTY = "C15"
LEVEL = "fault_enumeration"
HOST = "srv.sim"
EPS = 0.05
T_HANDSHAKE = 60.0

LIMIT_LINE = (f"gemini://{HOST}/".encode() + b"a" * (1022 - len(f"gemini://{HOST}/"))) + b"\r\n"
SHAPES = [
    ("gemini-short", f"gemini://{HOST}/index.gmi".encode() + b"\r\n"),
    ("gemini-1024", LIMIT_LINE),
    ("titan-1B", f"titan://{HOST}/up/a.txt;size=1;mime=text/plain".encode() + b"\r\n" + b"x"),
    ("titan-4k", f"titan://{HOST}/up/b.txt;size=4096;mime=text/plain".encode() + b"\r\n" + b"y" * 4096),
    # IRI-style lines: every stall point inside a multi-byte character is enumerated too
    ("gemini-nonascii", f"gemini://{HOST}/caf\u00e9/\u65e5\u672c\u8a9e/\U0001d11e.gmi".encode() + b"\r\n"),
    ("titan-nonascii", f"titan://{HOST}/up/na\u00efve-\u20ac.txt;size=3;mime=text/plain".encode() + b"\r\nabc"),
]
CIPHER_SPAN = 760   # covers ClientHello + Finished flights and the first application record

CASES = []
for _m in range(3):
    for _s, (_n, _b) in enumerate(SHAPES):
        for _k in range(len(_b) + 1):
            CASES.append(("plain-stall", _m, _s, _k))
for _m in (1, 2):
    for _s in (0, 2):
        for _k in range(CIPHER_SPAN):
            CASES.append(("cipher-stall", _m, _s, _k))
# the same plaintext stall points of the Titan shapes with an (allowing) middleware
# chain in front of the upload handler: the chain must not disarm the timer
for _m in range(3):
    for _s in (2, 3):
        for _k in range(len(SHAPES[_s][1]) + 1):
            CASES.append(("plain-stall-mw", _m, _s, _k))
# ... and behind a chain that REFUSES the upload: the refusal (or the 40, if the line
# was still incomplete) must be followed by the close although content is outstanding
for _m in range(3):
    for _k in range(len(SHAPES[2][1]) + 1):
        CASES.append(("plain-stall-mw-deny", _m, 2, _k))
    for _k in list(range(0, 70)) + list(range(70, len(SHAPES[3][1]) + 1, 97)):
        CASES.append(("plain-stall-mw-deny", _m, 3, _k))
NENUM = len(CASES)

TIERS = {"quick": NENUM + 20000, "thorough": NENUM + 2000000}
CHUNK = 120
RULE = (f"fault enumeration: runs 0..{NENUM - 1} enumerate every stall point - after every plaintext "
        f"byte offset of {len(SHAPES)} request shapes (two non-ASCII) x 3 transport modes, and after every ciphertext byte "
        f"offset 0..{CIPHER_SPAN - 1} of the client's handshake flights x 2 TLS backends x 2 shapes; "
        f"the Titan stall points again behind an allowing and behind a refusing middleware chain; "
        f"the remaining runs are seeded: late data at T-e/T/T+e, slow handler or middleware "
        f"(up to 5 x T) after a complete request, 1-byte dribble that never completes, peer "
        f"disconnect around the deadline, random stalls. distinct = distinct (case, event "
        f"signature); non-trivial = a stall, a boundary race or a slow handler was present")
PROBES = ["stall_in_handshake", "stall_in_request_line", "stall_in_titan_content",
          "complete_request_no_timeout", "late_data_at_boundary", "slow_handler_5T",
          "slow_middleware", "dribble", "stall_after_large_declared_size",
          "request_as_several_records_in_one_flight", "damaged_stream_then_silence", "ipv6_peer", "wall_clock_stepped_during_the_run", "loop_blocked_across_the_deadline", "tls_goodbye_then_silence", "handshake_slower_than_request_timeout", "chain_undecided_at_deadline_body_incomplete", "refused_upload_with_content_outstanding", "disconnect_near_deadline", "timeout_40_observed", "via_start_server"]
COMPONENTS = {
    "real": ["nauyaca.server.protocol (request timer)", "nauyaca.server.tls_protocol (handshake "
             "phase)", "asyncio sslproto handshake/shutdown timers", "OpenSSL"],
    "stub": ["sockets/selector/virtual clock", "raw stalling peer", "spy handlers"],
}
ASSUMPTIONS = ["T_handshake = 60 s (asyncio's default on the stdlib path) is the bound demanded of "
               "both backends", "only the upper bound is demanded: closing a stalled peer earlier "
               "is not a violation", "e = 50 ms of virtual slack covers link latency"]


def forced_prefix(idx):
    if idx < NENUM:
        return [0, idx]
    return [1]


def t_request():
    from nauyaca.server import protocol
    return float(getattr(protocol, "REQUEST_TIMEOUT", 30.0))


def session_time(net, tag, nbytes):
    """Instant at which the server had received ``nbytes`` bytes from the client."""
    tot = 0
    for t, kind, who, n in net.events:
        if kind == "seg" and who == tag + ".c2s":
            tot += n
            if tot >= nbytes:
                return t
    return None


def run_one(ch):
    from nauyaca.protocol.response import GeminiResponse
    res = RunResult()
    T = t_request()
    phase = ch.choose("phase", 2)
    sc = {"hdelay": None, "mwdelay": None, "stall_cipher": None, "script": None, "expect": None}
    if phase == 0:
        kind, m, s, k = CASES[ch.choose("case", NENUM)]
        mode = sw.MODES[m]
        name, stream = SHAPES[s]
        if kind in ("plain-stall", "plain-stall-mw", "plain-stall-mw-deny"):
            sc["script"] = ([("send", stream[:k])] if k else []) + [("stall",)]
            sc["sent"] = stream[:k]
            if kind != "plain-stall":
                sc["mwdelay"] = 0.0
            if kind == "plain-stall-mw-deny":
                sc["mwdeny"] = True
            sc["ipv6"] = (k % 4 == 3)
        else:
            sc["script"] = [("send", stream), ("stall",)]
            sc["stall_cipher"] = k
            sc["sent"] = stream
        sc["case"] = f"{kind}/{name}/k={k}"
    else:
        mode = sw.MODES[ch.choose("mode", 3)]
        s = ch.choose("shape", len(SHAPES))
        name, stream = SHAPES[s]
        sc["ipv6"] = ch.chance("ipv6", 0.3)
        r = ch.choose("scen", 13, [4, 3, 2, 2, 2, 2, 2, 2, 2, 2, 2, 2, 2])
        sc["sent"] = stream
        if r == 0:      # late data around the deadline
            k = ch.choose("latek", len(stream))
            delta = ch.pick("delta", [-0.5, -0.004, -0.0015, 0.0, 0.0015, 0.004, 0.5])
            sc["script"] = ([("send", stream[:k])] if k else []) + \
                [("sleep_until_rel", T + delta), ("send", stream[k:]), ("stall",)]
            sc["late"] = (k, delta)
            sc["case"] = f"late-data/{name}/k={k}/delta={delta}"
        elif r == 1:    # slow handler after a complete request
            sc["hdelay"] = ch.pick("hd", [T - 0.001, T, T + 0.001, 2 * T, 5 * T])
            sc["script"] = [("send", stream), ("stall",)]
            sc["case"] = f"slow-handler/{name}/{sc['hdelay']}"
        elif r == 2:    # slow middleware after a complete request
            sc["mwdelay"] = ch.pick("md", [T - 0.001, T + 0.001, 2 * T, 5 * T])
            sc["script"] = [("send", stream), ("stall",)]
            sc["case"] = f"slow-middleware/{name}/{sc['mwdelay']}"
        elif r == 3:    # dribble: one byte every 29 s, never completes in time
            gap = ch.pick("gap", [T - 1.0, T / 2, T / 4])
            script = []
            for i in range(min(len(stream) - 1, 8)):
                script += [("send", stream[i:i + 1]), ("sleep", gap)]
            sc["script"] = script + [("stall",)]
            sc["sent"] = stream[:min(len(stream) - 1, 8)]
            sc["case"] = f"dribble/{name}/gap={gap}"
        elif r == 4:    # peer disconnects around the deadline
            k = ch.choose("dk", len(stream))
            delta = ch.pick("ddelta", [-0.002, 0.0, 0.002])
            how = ch.pick("dhow", ["fin", "rst", "close"])
            sc["script"] = ([("send", stream[:k])] if k else []) + \
                [("sleep_until_rel", T + delta), (how,)]
            sc["sent"] = stream[:k]
            sc["disconnect"] = how
            sc["case"] = f"disconnect/{name}/k={k}/{how}/delta={delta}"
        elif r == 6:    # Titan upload that declares a large size and goes silent mid-body
            size = ch.pick("bigsize", [8193, 70000, 10 << 20, 10 ** 9])
            have = ch.pick("bighave", [0, 1, 100, 5000])
            stream = f"titan://{HOST}/up/big.bin;size={size};mime=application/octet-stream".encode() \
                + b"\r\n" + b"z" * have
            name = f"titan-declared-{size}"
            if ch.chance("bigmw", 0.3):
                sc["mwdelay"] = 0.0
            sc["script"] = [("send", stream), ("stall",)]
            sc["sent"] = stream
            sc["big_declared"] = True
            sc["case"] = f"big-declared-stall/{size}/have={have}"
        elif r == 12 and mode != "plain":
            # part of an upload, then the TLS goodbye (close_notify) - and then silence with the TCP
            # connection left open: still a silent peer, still disconnected in time
            s = ch.pick("cn.shape", [2, 3, 5])
            name, stream = SHAPES[s]
            k = stream.find(b"\r\n") + 2 + ch.choose("cn.k", len(stream) - stream.find(b"\r\n") - 2)
            sc["script"] = [("send", stream[:k]), ("close_notify",), ("stall",)]
            sc["sent"] = stream[:k]
            sc["tls_goodbye"] = True
            sc["case"] = f"close-notify-then-silence/{name}/k={k}"
        elif r == 11 and mode != "plain":
            # a slow link: every flight of the client takes 16 s, so the TLS handshake alone lasts
            # longer than the request timeout (and less than the handshake timeout); then a stall
            k = ch.choose("slowhs.k", len(stream))
            sc["script"] = ([("send", stream[:k])] if k else []) + [("stall",)]
            sc["sent"] = stream[:k]
            sc["c2s_latency"] = 16.0
            sc["case"] = f"handshake-slower-than-request-timeout/{name}/k={k}"
        elif r == 10:
            # the rest of the request arrives a quarter of a second BEFORE the deadline while the
            # event loop is blocked across it (long callback, GC / VM pause): when the loop comes
            # back, the data is in the socket and the timer is due - the request is complete
            k = ch.choose("blk.k", len(stream))
            sc["script"] = ([("send", stream[:k])] if k else []) + \
                [("sleep_until_rel", T - 0.25), ("send", stream[k:]), ("stall",)]
            sc["late"] = (k, -0.25)
            sc["block"] = (T - ch.pick("blk.from", [0.4, 0.3]), ch.pick("blk.for", [0.5, 0.8, 3.0]))
            sc["case"] = f"loop-blocked-across-deadline/{name}/k={k}/{sc['block']}"
        elif r == 9:
            # a chain that is still deciding when the request timer is due, while the upload's
            # body is incomplete and the peer silent: the timer answers, once and on time
            s = ch.pick("slowchain.shape", [2, 3, 5])
            name, stream = SHAPES[s]
            line_end = stream.find(b"\r\n") + 2
            k = line_end + ch.choose("slowchain.k", len(stream) - line_end)
            sc["mwdelay"] = ch.pick("slowchain.d", [T + 1.0, T + 5.0, 2 * T])
            sc["script"] = [("send", stream[:k]), ("stall",)]
            sc["sent"] = stream[:k]
            sc["slowchain"] = True
            sc["case"] = f"chain-undecided-at-deadline/{name}/k={k}/{sc['mwdelay']}"
        elif r == 8 and mode != "plain":
            # a damaged stream, then silence: one byte inverted in transit somewhere in the
            # client's handshake flights or its first application record - or a client
            # that talks plaintext to the TLS port
            sc["script"] = [("send", stream), ("stall",)]
            if ch.chance("corrupt_later_flight", 0.5):
                # the request travels in a later flight than the client's Finished
                sc["script"] = [("sleep", 0.05)] + sc["script"]
            if ch.chance("plaintext_to_tls", 0.25):
                sc["no_tls"] = True
                sc["corrupt"] = -1
                sc["case"] = f"plaintext-to-tls-port/{name}"
            else:
                sc["corrupt"] = ch.choose("corruptk", 700 + len(stream))
                sc["case"] = f"corrupted-byte/{name}/k={sc['corrupt']}"
        elif r == 7:    # the complete request as several TLS records that reach the server together
            cuts = sorted({1 + ch.choose("rcut", len(stream) - 1) for _ in range(1 + ch.choose("rn", 3))})
            if ch.chance("rcrlf", 0.5):
                cuts = sorted(set(cuts) | {stream.find(b"\r\n")})
            edges = [0] + [c for c in cuts if 0 < c < len(stream)] + [len(stream)]
            gap = ch.pick("rgap", [0.0, 0.0, 0.001, 0.01])
            sc["script"] = []
            for a, b in zip(edges, edges[1:]):
                if gap and a:
                    sc["script"].append(("sleep", gap))
                sc["script"].append(("send", stream[a:b]))
            sc["script"].append(("stall",))
            if ch.chance("rmw", 0.4):
                # ... behind an (allowing) chain that decides a little later: reads that arrive
                # between the request line and the verdict belong to the request
                sc["mwdelay"] = ch.pick("rmwd", [0.0, 0.005, 0.05, 2.0])
            sc["coalesce_first"] = ch.chance("rcoal", 0.5)
            sc["records"] = len(edges) - 1
            sc["case"] = f"records-in-one-flight/{name}/{edges[1:-1]}/{sc['coalesce_first']}"
        else:           # random ciphertext stall anywhere in the client's stream
            if ch.chance("stallmw", 0.4):
                sc["mwdelay"] = ch.pick("stallmwd", [0.0, 0.05, 2.0])
            sc["script"] = [("send", stream), ("stall",)]
            if mode != "plain":
                sc["stall_cipher"] = ch.choose("ck", 700 + len(stream))
            else:
                k = ch.choose("pk", len(stream) + 1)
                sc["script"] = ([("send", stream[:k])] if k else []) + [("stall",)]
                sc["sent"] = stream[:k]
            sc["case"] = f"random-stall/{name}/{sc['stall_cipher']}"

    sim = Sim(ch)
    net = sim.net
    if phase == 1 and ch.chance("wallstep", 0.15):
        # the wall clock is stepped while the peer is silent (NTP correction, VM resume):
        # deadlines are a matter of the monotonic clock
        dstep = ch.pick("wallstep.d", [-3600.0, -30.0, 30.0, 3600.0])
        net.step_wall_clock(ch.pick("wallstep.t", [0.5, 10.0, 29.0]), dstep)
        sc["wallstep"] = dstep
    hresp = GeminiResponse(status=20, meta="text/plain", body="handler response")
    uresp = GeminiResponse(status=20, meta="text/plain", body="upload stored")
    spy = sw.SpyHandler(sim, {"kind": "ret", "delay": sc["hdelay"], "response": hresp})
    upspy = sw.SpyUpload(sim, {"kind": "ret", "delay": sc["hdelay"] or 0.0, "response": uresp})
    mw = None
    if sc["mwdelay"] is not None:
        from nauyaca.server.middleware import MiddlewareChain

        class Slow:
            async def process_request(self, url, ip, fp=None):
                if sc["mwdelay"]:
                    await asyncio.sleep(sc["mwdelay"])
                if sc.get("mwdeny"):
                    return False, "53 Denied by policy\r\n"
                return True, None
        mw = MiddlewareChain([Slow()])
    out = {}
    horizon = T_HANDSHAKE + 6 * T + 120.0

    # a share of the seeded Gemini-shaped runs goes through the whole start_server()
    # (its own create_server call, TLS contexts and backend selection)
    use_ss = phase == 1 and mode != "plain" and s in (0, 1) and sc["hdelay"] is None and \
        sc["mwdelay"] is None and not sc.get("big_declared") and ch.chance("start_server", 0.5)
    if use_ss:
        sc["case"] += "/start_server"
        hresp_wire = b"20 text/gemini\r\n# index\n" if s == 0 else None

    async def main():
        srv_task = None
        if use_ss:
            import pathlib
            from nauyaca.server.config import ServerConfig
            from nauyaca.server.server import start_server
            from sim.world import fresh_dir
            root = pathlib.Path(fresh_dir("c15"), "root")
            root.mkdir()
            (root / "index.gmi").write_text("# index\n")
            cfg = ServerConfig(host=HOST, port=1965, document_root=root,
                               certfile=pathlib.Path(fx.crt("rsa1")), keyfile=pathlib.Path(fx.key("rsa1")),
                               require_client_cert=(mode == "pyopenssl"))
            srv_task = asyncio.ensure_future(start_server(cfg, log_level="CRITICAL"))
            await asyncio.sleep(0.001)
            if srv_task.done():
                srv_task.result()
            server = None
        else:
            server = await sw.start_protocol_server(sim, mode, spy, mw, upspy)
        t0 = net.now
        out["t0"] = t0
        if sc.get("block"):
            sim.block_loop(t0 + sc["block"][0], sc["block"][1])
        src = ("2001:db8::9", 50000, 0, 0) if sc.get("ipv6") else ("10.0.0.9", 50000)
        ep = raw_connect(net, HOST, 1965, src=src, c2s=WholePolicy(sc.get("c2s_latency", 0.001)),
                         s2c=WholePolicy(0.001), tag="k0")
        if sc["stall_cipher"] is not None:
            ep.tx.stall_at = sc["stall_cipher"]
        if sc.get("corrupt") is not None and sc["corrupt"] >= 0:
            ep.tx.corrupt_at = sc["corrupt"]
        # translate "sleep_until_rel" (relative to session establishment) lazily
        script = []
        for a in sc["script"]:
            if a[0] == "sleep_until_rel":
                script.append(("call", lambda p, rel=a[1]: _sleep_until(p, rel)))
            else:
                script.append(a)
        peer = RawPeer(net, ep, script, tls_ctx=None if sc.get("no_tls") else sw.peer_tls_ctx(mode),
                       polite_close=False,
                       coalesce_first=bool(sc.get("coalesce_first")), name="cli")
        out["peer"] = peer
        out["t0"] = t0
        await asyncio.sleep(horizon - 10.0)
        peer.drain_final()
        if server is not None:
            server.close()
        if srv_task is not None:
            srv_task.cancel()

    def _sleep_until(p, rel):
        base = p.t_hs_done if p.t_hs_done is not None else out["t0"]
        target = base + rel
        p.waiting = "sleep"
        net.at(max(net.now, target), p._wake)

    status = sim.run(main(), horizon=horizon, max_iterations=400000)
    if sim.error is not None:
        raise sim.error
    if status != "done":
        raise RuntimeError(f"C15 world ended with status {status}")
    peer = out["peer"]
    t0 = out["t0"]
    rx = bytes(peer.rx_plain)
    pw = sw.parse_wire(rx) if rx else None
    sent = sc["sent"]
    # did the server get a TLS session?  (client finished its handshake AND all
    # of its handshake bytes got through the stall)
    if mode == "plain":
        session = True
        t_session = t0
    else:
        hs_out = getattr(peer, "hs_bytes_out", None)
        session = peer.t_hs_done is not None
        t_session = None
        if session:
            # bytes of the client's handshake flights = c2s bytes sent when hs completed
            hs_bytes = peer.hs_bytes_out
            if sc["stall_cipher"] is not None and sc["stall_cipher"] < hs_bytes:
                session = False
            else:
                t_session = session_time(net, "k0", hs_bytes)
                if t_session is None:
                    session = False
    # what did the server receive of the request?
    delivered_plain = sent
    if sc["stall_cipher"] is not None and mode != "plain":
        delivered_plain = sent if (session and peer.ep.tx.delivered >= peer.ep.tx.sent) else b""
    complete = _complete(delivered_plain)
    t_close = min([t for t in (peer.t_close_notify, peer.t_fin, peer.t_rst) if t is not None],
                  default=None)
    t_tcp = min([t for t in (peer.t_fin, peer.t_rst) if t is not None], default=None)
    ctx = dict(case=sc["case"], mode=mode, session=session, t_session=t_session, t_close=t_close,
               t_tcp_close=t_tcp, received=rx[:100], complete_request=complete, T_request=T,
               handler_delay=sc["hdelay"], middleware_delay=sc["mwdelay"],
               loop_exceptions=sim.loop.exceptions[:2])
    site = mode
    late = sc.get("late")
    disc = sc.get("disconnect")
    if sc.get("corrupt") is not None:
        res.stats["damaged_stream_then_silence"] += 1
        damaged = sc.get("no_tls") or peer.ep.tx.sent > sc["corrupt"]
        in_hs = sc.get("no_tls") or peer.t_hs_done is None or sc["corrupt"] < (peer.hs_bytes_out or 0)
        ctx["damaged_in_handshake"] = bool(in_hs)
        if not damaged:
            pass       # the stream was shorter than the drawn offset: an ordinary complete request
        else:
            limit = (t0 + T_HANDSHAKE + EPS) if in_hs else ((t_session or t0) + T + EPS)
            if t_close is None or t_close > limit:
                res.violate(f"C15/damaged-stream-not-closed/{site}",
                            f"the client's stream was damaged in transit and the client then went "
                            f"silent; the connection was not ended within the timeout (closed at "
                            f"{t_close}, limit {limit:.3f})", **ctx)
            elif t_tcp is None or t_tcp > limit + 31.0:
                res.violate(f"C15/socket-held-open/{site}",
                            "the stream was ended but the TCP connection was still open 31 s later",
                            **ctx)
    elif disc is None:
        if not session:
            limit = t0 + T_HANDSHAKE + EPS
            if t_close is None or t_close > limit:
                res.violate(f"C15/handshake-stall-not-closed/{site}",
                            f"peer went silent during the TLS handshake; the server had not ended "
                            f"the connection {T_HANDSHAKE} s after accept "
                            f"(closed at {t_close})", **ctx)
        elif sc.get("mwdeny") and b"\r\n" in delivered_plain:
            # the chain refused as soon as the line was complete; content is outstanding
            limit = t_session + T + EPS
            res.stats["refused_upload_with_content_outstanding"] += 1
            if t_close is None or t_close > limit:
                res.violate(f"C15/request-stall-not-closed/refused-upload/{site}",
                            f"the chain refused the upload and the peer went silent before the last "
                            f"content byte; connection not ended within the request timeout "
                            f"(closed at {t_close}, limit {limit:.3f})", **ctx)
            elif not rx or not pw["ok"] or pw["status"] not in (40, 53):
                res.violate(f"C15/no-40-before-close/{site}",
                            "refused upload, stalled peer: not exactly one well-formed response "
                            "before the close", **ctx)
            if t_close is not None and (t_tcp is None or t_tcp > limit + 31.0):
                res.violate(f"C15/socket-held-open/{site}",
                            "the stream was ended but the TCP connection was still open 31 s later",
                            **ctx)
        elif not complete and late is None:
            limit = t_session + T + EPS
            if t_close is None or t_close > limit:
                res.violate(f"C15/request-stall-not-closed/{site}",
                            f"peer went silent part-way through the request; connection not ended "
                            f"within the request timeout (closed at {t_close}, limit {limit:.3f})",
                            **ctx)
            elif sc.get("tls_goodbye"):
                pass        # the peer has ended its TLS session: only the disconnect is owed
            elif not rx or not pw["ok"] or pw["status"] != 40:
                res.violate(f"C15/no-40-before-close/{site}",
                            "a TLS session existed but the stalled peer did not receive exactly "
                            "one well-formed 40 response before the close", **ctx)
            else:
                res.stats["timeout_40_observed"] += 1
            if t_close is not None and (t_tcp is None or t_tcp > limit + 31.0):
                res.violate(f"C15/socket-held-open/{site}",
                            "the TLS/protocol stream was ended but the TCP connection was still "
                            "open 31 s later", **ctx)
        elif late is not None:
            k, delta = late
            limit = t_session + T + max(0.0, delta) + (sc["hdelay"] or 0) + 1.0 + \
                (sc["block"][1] if sc.get("block") else 0.0)
            if t_close is None or t_close > limit:
                res.violate(f"C15/late-data-not-closed/{site}",
                            "data arrived around the deadline; the connection was not ended", **ctx)
            elif not rx or not pw["ok"]:
                res.violate(f"C15/late-data-malformed/{site}",
                            "data arrived around the deadline: not exactly one well-formed "
                            "response", **ctx)
            else:
                exp_h = sw.expected_wire(hresp if not sent.startswith(b"titan") else uresp)
                if use_ss:
                    exp_h = hresp_wire or rx
                is_timeout = pw["status"] == 40 and rx != exp_h
                if use_ss and hresp_wire is None:
                    is_timeout = rx.startswith(b"40 Request timeout")
                if delta <= -0.004 and is_timeout and k < len(sent):
                    res.violate(f"C15/timeout-before-deadline-with-complete-request/{site}",
                                "the complete request arrived before the deadline but a timeout "
                                "response was sent", **ctx)
                if delta >= 0.004 and not is_timeout and k < len(sent):
                    res.violate(f"C15/no-timeout-after-deadline/{site}",
                                "the request was still incomplete at the deadline but no timeout "
                                "response was sent", **ctx)
        else:
            # complete request delivered: the handler's own response, never a timeout
            exp = sw.expected_wire(hresp if not sent.startswith(b"titan") else uresp)
            if use_ss:
                # the 1024-byte path has no file: any well-formed answer of the static
                # handler is fine (51, or 40 "File name too long") - but not a timeout
                exp = hresp_wire if hresp_wire is not None else \
                    (rx if (pw and pw["ok"] and not rx.startswith(b"40 Request timeout"))
                     else b"<a non-timeout response>")
            if rx != exp:
                res.violate(f"C15/timeout-after-complete-request/{site}",
                            "a complete request was received and being answered, yet the client "
                            "did not get exactly the handler's response (timeout fired, or "
                            "nothing/garbled)", expected=exp, **ctx)
            elif t_close is None:
                res.violate(f"C15/no-close-after-response/{site}",
                            "response sent but stream never ended", **ctx)
            elif t_tcp is None or t_tcp > t_close + 31.0:
                # the peer neither answers the TLS goodbye nor closes: the server lets go anyway
                res.violate(f"C15/socket-held-open/{site}",
                            "the response was delivered and the stream ended, but the TCP connection "
                            "was still open 31 s later", **ctx)
            else:
                res.stats["complete_request_no_timeout"] += 1
    else:
        # the peer disconnected itself around the deadline: anything received is well-formed
        if rx and disc != "rst" and mode == "plain" and not pw["ok"]:
            res.violate(f"C15/disconnect-race-malformed/{site}",
                        "peer disconnected near the deadline and received an ill-formed response",
                        **ctx)
        res.stats["disconnect_near_deadline"] += 1

    if not session:
        res.stats["stall_in_handshake"] += 1
    elif not complete and b"\r\n" not in delivered_plain:
        res.stats["stall_in_request_line"] += 1
    elif not complete:
        res.stats["stall_in_titan_content"] += 1
    if late is not None:
        res.stats["late_data_at_boundary"] += 1
    if sc["hdelay"] and sc["hdelay"] >= 5 * T:
        res.stats["slow_handler_5T"] += 1
    if sc["mwdelay"]:
        res.stats["slow_middleware"] += 1
    if sc["case"].startswith("dribble"):
        res.stats["dribble"] += 1
    if sc.get("ipv6"):
        res.stats["ipv6_peer"] += 1
    if sc.get("block"):
        res.stats["loop_blocked_across_the_deadline"] += 1
    if sc.get("tls_goodbye"):
        res.stats["tls_goodbye_then_silence"] += 1
    if sc.get("c2s_latency"):
        res.stats["handshake_slower_than_request_timeout"] += 1
    if sc.get("wallstep"):
        res.stats["wall_clock_stepped_during_the_run"] += 1
    if sc.get("slowchain"):
        res.stats["chain_undecided_at_deadline_body_incomplete"] += 1
    if sc.get("big_declared"):
        res.stats["stall_after_large_declared_size"] += 1
    if sc.get("records"):
        res.stats["request_as_several_records_in_one_flight"] += 1
    if use_ss:
        res.stats["via_start_server"] += 1
    res.stats["enumerated" if phase == 0 else "seeded"] += 1
    res.sim_seconds = net.now
    res.signature = hashlib.sha256((sc["case"] + sim.signature()).encode()).hexdigest()[:16]
    res.digest = sim.digest()
    res.nontrivial = True
    res.sample = {k: v for k, v in ctx.items() if k not in ("loop_exceptions",)}
    return res


def _complete(plain: bytes) -> bool:
    i = plain.find(b"\r\n")
    if i < 0:
        return False
    line = plain[:i]
    if line.startswith(b"titan://"):
        try:
            size = int(line.split(b";size=")[1].split(b";")[0])
        except Exception:
            return True
        return len(plain) - (i + 2) >= size
    return True
