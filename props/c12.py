"""C12 - the trust store changes atomically and survives export/import.

World: store.  The real TOFUDatabase on a real sqlite file behind the SQL
seam.  Each run draws a history of store operations; the LAST operation is the
target: it is first executed without faults (tick count, normal outcome), then
re-executed from the same durable starting state once per tick k with a CRASH
at k (the process dies, the database file and its journal are kept as they are,
the store is reopened - sqlite's hot-journal recovery included) and once with
an injected sqlite3.OperationalError at k.

Oracle: before = table prior to the operation, after = the abstract model's
result.  Returned normally => after.  Raised => before or after.  Crashed and
reopened => before or after.  Export -> import into an empty store reproduces
every (host, port, fingerprint, first_seen).
"""

from __future__ import annotations

import hashlib
import os
import pathlib
import shutil

from sim import fixtures as fx
from sim.runner import RunResult
from sim.storage import SEAM, SimCrash, _real_connect
from sim.tofuworld import load_cert
from sim.world import fresh_dir

PROPERTY = "C12"
LEVEL = "fault_enumeration"
TIERS = {"quick": 8000, "thorough": 400000}
CHUNK = 25
RULE = ("each run draws a history of 0-6 store operations followed by a target operation (trust, "
        "verify, revoke, revoke_by_hostname, clear, import_toml in merge/replace mode with conflict "
        "callback none/accept/refuse/raising and files with a defect - missing field, bad port, bad "
        "fingerprint, wrong type, duplicate host under two keys - at every entry position, or an "
        "export/import round trip) over host names with IPv6 literals, dots, colons, quotes, "
        "backslashes, '#', '=', brackets, newlines, non-ASCII and 300-character names; for the "
        "target EVERY SQL statement boundary and commit is used once as a crash point and once as "
        "an injected error. evaluations = executions of the target operation (fault-free + one per "
        "tick and fault kind); distinct = distinct (operation, tick, fault kind, outcome, statement)"
        "; non-trivial = executions in which a fault actually fired")
PROBES = ["crash_fired", "error_fired", "replace_import", "merge_import", "defective_import",
          "duplicate_host_import", "conflict_callback_raises", "object_answers_checked", "error_with_engine_rollback", "export_with_concurrent_verify", "conflict_callback_interrupted", "round_trip", "weird_hostname", "via_cli", "lookalike_family", "big_import_crash_case",
          "crash_between_statement_and_commit"]
COMPONENTS = {
    "real": ["nauyaca.security.tofu.TOFUDatabase", "sqlite3 on a real file (rollback journal, hot-"
             "journal recovery on reopen)", "tomllib / tomli_w"],
    "stub": ["sqlite3.connect -> tick-counting proxy (fault / crash injection)",
             "process death = SimCrash(BaseException) + snapshot of db and journal files"],
}
ASSUMPTIONS = ["crash points are SQL statement and commit boundaries; a crash inside sqlite's C "
               "commit code is delegated to sqlite's atomic-commit guarantee",
               "last_seen is never compared"]

HOSTNAMES = ["example.com", "a.b.c.example.org", "::1", "2001:db8::7", "[::1]", "host:with:colons",
             'quo"te.sim', "back\\slash.sim", "hash#tag.sim", "eq=sign.sim", "br[ack]et.sim",
             "new\nline.sim", "ünï-çödé.sim", "日本.sim", "x" * 300, "tab\there", "sp ace",
             "dot.", ".", "'single'", "a", "hosts", "_metadata",
             # look-alike families: SQL LIKE wildcards and ASCII case
             "srv_1.lan", "srv-1.lan", "srvx1.lan", "100%.example", "100-percent.example",
             "EXAMPLE.COM", "Example.com"]
FAMILY = ["srv_1.lan", "srv-1.lan", "srvx1.lan", "100%.example", "100-percent.example",
          "EXAMPLE.COM", "Example.com", "example.com"]
CERTS = fx.SERVER_CERTS


def table(db_path):
    """{(host, port): (fingerprint, first_seen)} via an un-instrumented connection."""
    if not os.path.exists(db_path):
        return {}
    conn = _real_connect(db_path)
    try:
        try:
            rows = conn.execute(
                "SELECT hostname, port, fingerprint, first_seen FROM known_hosts").fetchall()
        except Exception:
            return {}
    finally:
        conn.close()
    return {(h, p): (f, fs) for h, p, f, fs in rows}


def triples(t):
    return {k: v[0] for k, v in t.items()}


def gen_op(ch, label, scratch, idx, allow_roundtrip=False):
    kinds = ["trust", "verify", "revoke", "revoke_by_hostname", "clear", "import", "roundtrip"]
    w = [6, 2, 3, 2, 2, 8, 2 if allow_roundtrip else 0]
    k = kinds[ch.choose(label, len(kinds), w)]
    host = HOSTNAMES[ch.choose(label + ".host", len(HOSTNAMES), [6, 3, 2, 2] + [1] * (len(HOSTNAMES) - 4))]
    port = ch.pick(label + ".port", [1965, 7070, 1, 65535])
    op = {"kind": k, "host": host, "port": port}
    if k in ("trust", "verify"):
        op["cert"] = CERTS[ch.choose(label + ".cert", len(CERTS))]
    if k == "import":
        op["merge"] = bool(ch.choose(label + ".merge", 2))
        # "interrupts": the callback is where a user presses Ctrl-C / the program exits /
        # the surrounding task is cancelled - not an `Exception`, the process lives on
        op["cb"] = ch.pick(label + ".cb", [None, "accept", "refuse", "raises", "interrupts"],
                           [3, 3, 2, 2, 1])
        if op["cb"] == "interrupts":
            op["interrupt"] = ch.pick(label + ".intr", ["KeyboardInterrupt", "SystemExit",
                                                        "CancelledError", "GeneratorExit"])
        n = 1 + ch.choose(label + ".n", 6, [3, 3, 2, 2, 1, 1])
        ents = []
        for j in range(n):
            h = HOSTNAMES[ch.choose(label + ".eh", len(HOSTNAMES), [6, 3, 2, 2] + [1] * (len(HOSTNAMES) - 4))]
            p = ch.pick(label + ".ep", [1965, 7070])
            ents.append({"key": f"{h}:{p}", "hostname": h, "port": p,
                         "fingerprint": fx.fp(CERTS[ch.choose(label + ".ec", len(CERTS))]),
                         # some pins were stamped by a clock that ran ahead of this one
                         "first_seen": (f"2023-0{1 + j}-01T00:00:00+00:00" if ch.choose(label + ".future", 4)
                                        else f"209{j}-06-01T12:00:00+00:00"),
                         "last_seen": "2024-01-02T00:00:00+00:00"})
        seen_keys = set()
        uniq = []
        for e in ents:
            if e["key"] not in seen_keys:
                seen_keys.add(e["key"])
                uniq.append(e)
        ents = uniq
        n = len(ents)
        defect = ch.choose(label + ".defect", 8, [6, 1, 1, 1, 1, 2, 1, 1])
        pos = ch.choose(label + ".dpos", n)
        op["defect"] = None
        if defect == 1:
            del ents[pos][ch.pick(label + ".dfield", ["hostname", "port", "fingerprint",
                                                      "first_seen", "last_seen"])]
            op["defect"] = "missing-field"
        elif defect == 2:
            ents[pos]["port"] = ch.pick(label + ".dport", [0, 70000, -1, "1965", 1.5])
            op["defect"] = "bad-port"
        elif defect == 3:
            ents[pos]["fingerprint"] = ch.pick(label + ".dfp", ["sha256:xyz", "md5:" + "0" * 32,
                                                               "sha256:" + "0" * 63, ""])
            op["defect"] = "bad-fingerprint"
        elif defect == 4:
            ents[pos]["hostname"] = 12345
            op["defect"] = "wrong-type"
        elif defect == 5 and n >= 1:
            dup = dict(ents[pos])
            dup["key"] = "alias-of-" + str(pos)
            if ch.choose(label + ".dupfp", 2):
                dup["fingerprint"] = fx.fp(CERTS[ch.choose(label + ".dupc", len(CERTS))])
            ents.insert(ch.choose(label + ".duppos", len(ents) + 1), dup)
            op["defect"] = "duplicate-host"
        elif defect == 6:
            op["defect"] = "hosts-not-table"
        elif defect == 7:
            op["defect"] = "no-hosts-section"
        op["entries"] = ents
    return op


def write_import_file(op, path):
    import tomli_w
    if op["defect"] == "hosts-not-table":
        data = {"hosts": "nope"}
    elif op["defect"] == "no-hosts-section":
        data = {"other": {}}
    else:
        data = {"_metadata": {"version": "1.0"}, "hosts": {}}
        for e in op["entries"]:
            d = {k: v for k, v in e.items() if k != "key"}
            data["hosts"][e["key"]] = d
    with open(path, "wb") as f:
        f.write(tomli_w.dumps(data).encode("utf-8"))


def model_apply(op, state):
    """Abstract result {(h, p): fp} of a COMPLETE operation, or None if the
    operation must fail as a whole."""
    st = dict(state)
    k = op["kind"]
    if k == "trust":
        st[(op["host"], op["port"])] = fx.fp(op["cert"])
    elif k == "verify":
        pass
    elif k == "revoke":
        st.pop((op["host"], op["port"]), None)
    elif k == "revoke_by_hostname":
        for key in [key for key in st if key[0] == op["host"]]:
            del st[key]
    elif k == "clear":
        st = {}
    elif k == "import":
        if op["defect"] in ("missing-field", "bad-port", "bad-fingerprint", "wrong-type",
                            "hosts-not-table", "no-hosts-section"):
            return None
        if not op["merge"]:
            st = {}
        for e in op["entries"]:
            key = (e["hostname"], e["port"])
            if key not in st:
                st[key] = e["fingerprint"]
            elif st[key] != e["fingerprint"]:
                if op["cb"] in ("raises", "interrupts"):
                    return None
                if op["cb"] == "accept":
                    st[key] = e["fingerprint"]
    return st


def do_op_cli(op, scratch, tag, home):
    """Execute op through the command line interface (`nauyaca tofu ...`), which
    opens the default store under $HOME/.nauyaca/tofu.db."""
    from typer.testing import CliRunner

    from nauyaca.__main__ import app
    k = op["kind"]
    args, inp = None, ""
    if k == "clear":
        args = ["tofu", "clear", "--force"]
    elif k == "revoke":
        args = ["tofu", "revoke", op["host"], "--port", str(op["port"])]
    elif k == "revoke_by_hostname":
        args = ["tofu", "revoke", op["host"], "--force"]
    elif k == "import":
        f = pathlib.Path(scratch, f"import-{tag}.toml")
        if not f.exists():
            write_import_file(op, f)
        args = ["tofu", "import", str(f)]
        if not op["merge"]:
            args.append("--replace")
        if op["cb"] == "accept":
            args.append("--force")
        else:
            inp = ("y\n" if not op["merge"] else "")
            if op["cb"] in (None, "refuse"):
                inp += "n\n" * 12          # decline every conflict prompt
            # "raises": no further input -> the prompt aborts inside the callback
    old_home = os.environ.get("HOME")
    os.environ["HOME"] = home
    try:
        r = CliRunner().invoke(app, args, input=inp)
    finally:
        if old_home is None:
            os.environ.pop("HOME", None)
        else:
            os.environ["HOME"] = old_home
    if r.exit_code != 0:
        raise RuntimeError(f"CLI exit code {r.exit_code}: {(r.output or '')[-200:]}")
    return "ok"


def do_op(db, op, scratch, tag):
    """Execute op on TOFUDatabase db.  Returns outcome string."""
    if op.get("cli"):
        return do_op_cli(op, scratch, tag, op["cli"])
    k = op["kind"]
    if k == "trust":
        db.trust(op["host"], op["port"], load_cert(op["cert"]))
    elif k == "verify":
        db.verify(op["host"], op["port"], load_cert(op["cert"]))
    elif k == "revoke":
        db.revoke(op["host"], op["port"])
    elif k == "revoke_by_hostname":
        db.revoke_by_hostname(op["host"])
    elif k == "clear":
        db.clear()
    elif k == "import":
        f = pathlib.Path(scratch, f"import-{tag}.toml")
        if not f.exists():
            write_import_file(op, f)
        cb = None
        if op["cb"] == "accept":
            cb = lambda *a: True       # noqa
        elif op["cb"] == "refuse":
            cb = lambda *a: False      # noqa
        elif op["cb"] == "raises":
            def cb(*a):
                raise RuntimeError("conflict callback failed")
        elif op["cb"] == "interrupts":
            import asyncio
            exc = {"KeyboardInterrupt": KeyboardInterrupt, "SystemExit": SystemExit,
                   "CancelledError": asyncio.CancelledError, "GeneratorExit": GeneratorExit}[op["interrupt"]]

            def cb(*a):
                raise exc()
        db.import_toml(f, merge=op["merge"], on_conflict=cb)
    return "ok"


def big_import_case(ch, res, db, base_db, scratch, hist):
    """An import large enough to outgrow sqlite's page cache, killed late: what the dead
    process leaves on disk (database + journal) must recover to before or after."""
    import tomli_w
    from nauyaca.security.tofu import TOFUDatabase
    for i in range(40):
        db.trust(f"seed-{i}.example", 1965, load_cert(CERTS[i % len(CERTS)]))
    before = triples(table(base_db))
    n = ch.pick("bign", [9000, 12000])
    merge = bool(ch.choose("bigmerge", 2))
    fp = fx.fp(CERTS[0])
    hosts = {}
    for i in range(n):
        h = f"host-{i:06d}-" + "x" * 44 + ".example"
        hosts[f"{h}:1965"] = {"hostname": h, "port": 1965, "fingerprint": fp,
                              "first_seen": "2023-01-01T00:00:00+00:00",
                              "last_seen": "2024-01-01T00:00:00+00:00"}
    f = pathlib.Path(scratch, "big.toml")
    f.write_bytes(tomli_w.dumps({"hosts": hosts}).encode())
    work = os.path.join(scratch, "work.db")

    def restore():
        for suffix in ("", "-journal", "-wal", "-shm"):
            if os.path.exists(work + suffix):
                os.remove(work + suffix)
        shutil.copy2(base_db, work)
    restore()
    SEAM.reset(None)
    SEAM.enabled = True
    TOFUDatabase(pathlib.Path(work)).import_toml(f, merge=merge)
    SEAM.enabled = False
    nticks = SEAM.tick
    after = triples(table(work))
    evals, sigs = 1, set()
    hist.append(f"TARGET big import of {n} hosts merge={merge} ({nticks} ticks)")
    for k in sorted({nticks, nticks - 1, nticks - 7, nticks - 200, (nticks * 3) // 4, nticks // 2}):
        if k < 3:
            continue
        restore()
        crash_dir = os.path.join(scratch, "crashed")
        shutil.rmtree(crash_dir, ignore_errors=True)
        SEAM.reset(None)
        SEAM.enabled = True
        SEAM.fault_at, SEAM.fault_kind, SEAM.crash_dir = k, "crash", crash_dir
        try:
            TOFUDatabase(pathlib.Path(work)).import_toml(f, merge=merge)
            oc = "returned"
        except SimCrash:
            oc = "crashed"
        except Exception as e:  # noqa
            oc = "raised:" + type(e).__name__
        fired = SEAM.fired
        SEAM.enabled = False
        SEAM.fault_at = None
        evals += 1
        if fired is None or oc != "crashed":
            continue
        res.stats["crash_fired"] += 1
        path = os.path.join(crash_dir, "work.db")
        try:
            TOFUDatabase(pathlib.Path(path))
            got = triples(table(path))
        except Exception as e:  # noqa
            got = {"<unreadable>": repr(e)[:80]}
        sigs.add((("big-import", merge, k == nticks, got == before, got == after), True))
        if got != before and got != after:
            res.violate(f"C12/not-atomic-under-crash/big-import-{'merge' if merge else 'replace'}",
                        f"process killed at tick {k} of {nticks} of a {n}-host import; after reopening "
                        f"the store holds {len(got)} rows - neither the {len(before)} before nor the "
                        f"{len(after)} after", tick=k, ticks=nticks, hosts=n, merge=merge,
                        rows_after_crash=len(got), history=hist)
    res.stats["big_import_crash_case"] += 1
    res.stats["target_executions"] += evals
    res.signature = hashlib.sha256(repr(("big", n, merge)).encode()).hexdigest()[:16]
    res.digest = res.signature
    res.nontrivial = True
    res.sample = {"history": hist[-2:], "executions": evals}
    res.extra_evaluations = evals
    res.extra_distinct = sigs
    SEAM.enabled = True
    SEAM.reset(None)
    return res


def run_one(ch):
    from nauyaca.security.tofu import TOFUDatabase
    res = RunResult()
    scratch = fresh_dir("c12")
    base_db = os.path.join(scratch, "base.db")
    SEAM.reset(None)
    SEAM.enabled = False
    db = TOFUDatabase(pathlib.Path(base_db))
    nprefix = ch.choose("nprefix", 7)
    hist = []
    model = {}
    if ch.chance("family", 0.25):
        # the store already knows a family of look-alike names
        for h in FAMILY:
            db.trust(h, 1965, load_cert(CERTS[ch.choose("famcert", len(CERTS))]))
        hist.append("pre-trusted look-alike family " + ", ".join(FAMILY))
        res.stats["lookalike_family"] += 1
    if ch.chance("bigimport", 0.002):
        return big_import_case(ch, res, db, base_db, scratch, hist)
    for i in range(nprefix):
        op = gen_op(ch, "pre", scratch, i)
        try:
            do_op(db, op, scratch, f"p{i}")
        except SimCrash:
            raise
        except BaseException:  # noqa  (interrupting callbacks included)
            pass
        hist.append(_descr(op))
        # resync the model with reality for the prefix (the target op is what is judged)
        model = triples(table(base_db))
    target = gen_op(ch, "tgt", scratch, 99, allow_roundtrip=True)
    hist.append("TARGET " + _descr(target))
    before_full = table(base_db)
    before = triples(before_full)
    evals = 0
    sigs = set()
    nontriv = 0

    if target["kind"] == "roundtrip":
        SEAM.enabled = False
        exp = pathlib.Path(scratch, "export.toml")
        if ch.chance("rt_big_concurrent", 0.08):
            # a store of > 1000 hosts, and ANOTHER process verifying one of them (which stamps
            # its last_seen) at a statement boundary in the middle of the export
            import tomli_w
            nbig = ch.pick("rt_n", [700, 1200])
            fp0 = fx.fp(CERTS[0])
            hosts = {f"bulk{i:04d}.example:1965": {
                "hostname": f"bulk{i:04d}.example", "port": 1965, "fingerprint": fp0,
                "first_seen": "2023-01-01T00:00:00+00:00",
                "last_seen": f"2024-01-{1 + i % 28:02d}T00:00:{i % 60:02d}+00:00"} for i in range(nbig)}
            bf = pathlib.Path(scratch, "bulk.toml")
            bf.write_bytes(tomli_w.dumps({"hosts": hosts}).encode())
            db.import_toml(bf, merge=True)
            before_full = table(base_db)
            victim = f"bulk{ch.choose('rt_victim', nbig):04d}.example"
            other = TOFUDatabase(pathlib.Path(base_db))
            SEAM.reset(None)
            SEAM.enabled = True
            SEAM.fault_at = 1 + ch.choose("rt_tick", 8)
            SEAM.fault_kind = "call"
            SEAM.hook = lambda: other.verify(victim, 1965, load_cert(CERTS[0]))
            hist.append(f"store grown to {len(before_full)} hosts; another process verifies {victim} "
                        f"at statement {SEAM.fault_at} of the export")
            res.stats["export_with_concurrent_verify"] += 1
        try:
            n = db.export_toml(exp)
            SEAM.enabled = False
            SEAM.fault_at = None
            db2 = TOFUDatabase(pathlib.Path(scratch, "fresh.db"))
            db2.import_toml(exp, merge=bool(ch.choose("rtmerge", 2)))
            got = table(os.path.join(scratch, "fresh.db"))
        except Exception as e:  # noqa
            res.violate("C12/round-trip-failed/" + type(e).__name__,
                        f"export -> import into an empty store raised {type(e).__name__}: {e}",
                        history=hist, rows=sorted((repr(k[0])[:40], k[1]) for k in before_full))
            got = None
        if got is not None and got != before_full:
            miss = {k: v for k, v in before_full.items() if got.get(k) != v}
            res.violate("C12/round-trip-differs",
                        "export -> import into an empty store did not reproduce every host, port, "
                        "fingerprint and first_seen",
                        missing_or_changed={repr(k): v for k, v in list(miss.items())[:5]},
                        unexpected={repr(k): v for k, v in got.items() if k not in before_full},
                        history=hist)
        res.stats["round_trip"] += 1
        evals = 1
        sigs.add((("roundtrip", len(before_full)), True))
    else:
        after = model_apply(target, before)
        allowed = [before] + ([after] if after is not None else [])

        def restore(dst):
            for suffix in ("", "-journal", "-wal", "-shm"):
                if os.path.exists(dst + suffix):
                    os.remove(dst + suffix)
            shutil.copy2(base_db, dst)

        # 1. fault-free execution: tick count and normal outcome
        work = os.path.join(scratch, "work.db")
        if target["kind"] in ("import", "clear", "revoke", "revoke_by_hostname") and \
                not (target["kind"] != "import" and ("\n" in target["host"] or target["host"].startswith("-")
                                                    or not target["host"])) and \
                target.get("cb") != "interrupts" and ch.chance("via_cli", 0.25):
            # same operation through the command line entry point
            home = os.path.join(scratch, "home")
            os.makedirs(os.path.join(home, ".nauyaca"), exist_ok=True)
            work = os.path.join(home, ".nauyaca", "tofu.db")
            target["cli"] = home
            hist[-1] += " [via CLI]"
            res.stats["via_cli"] += 1
        restore(work)
        SEAM.reset(None)
        SEAM.enabled = True
        dbt = TOFUDatabase(pathlib.Path(work))
        try:
            do_op(dbt, target, scratch, "t")
            outcome = "returned"
        except SimCrash:
            raise
        except BaseException as e:  # noqa  (KeyboardInterrupt & co. from the callback included)
            outcome = "raised:" + type(e).__name__
        SEAM.enabled = False
        if not target.get("cli"):
            # the object that ran the operation answers from the store as it now is - not
            # from anything it remembers of an operation that failed (or of the one before)
            now_tbl = triples(table(work))
            probe_keys = list(now_tbl)[:3] + [(e["hostname"], e["port"]) for e in target.get("entries", [])
                                               if isinstance(e.get("hostname"), str)
                                               and isinstance(e.get("port"), int)][:4]
            pc = CERTS[0]
            for hk in probe_keys:
                pin = now_tbl.get(hk)
                want = (True, "first_use") if pin is None else \
                    ((True, "") if pin == fx.fp(pc) else (False, "changed"))
                try:
                    ans = dbt.verify(hk[0], hk[1], load_cert(pc))
                except Exception as e:  # noqa
                    ans = ("raised", type(e).__name__)
                if ans[0] != want[0] or (want[1] in ("first_use", "changed") and ans[1] != want[1]):
                    res.violate(f"C12/object-answers-differ-from-store/{_opkey(target)}",
                                f"after the operation ({outcome}) verify() on the same object says "
                                f"{ans!r} for {hk!r}, the store on disk says pin={str(pin)[:24]!r} "
                                f"(expected {want!r})", history=hist)
                    break
            res.stats["object_answers_checked"] += 1
        # TOFUDatabase() itself runs CREATE TABLE + commit: those ticks belong to opening
        nticks = SEAM.tick
        ticklog = list(SEAM.log)
        got = triples(table(work))
        evals += 1
        ctx0 = dict(history=hist, outcome=outcome, ticks=[(t, k, s) for t, g, k, s in ticklog],
                    before={repr(k): v[:15] for k, v in before.items()},
                    model_after=({repr(k): v[:15] for k, v in after.items()} if after is not None else None))
        if outcome == "returned":
            if after is not None and target.get("defect") in (None, "duplicate-host") \
                    and got != after:
                res.violate(f"C12/result-differs-from-model/{target['kind']}",
                            "after a normally returning operation the table differs from the "
                            "abstract model's result",
                            table={repr(k): v[:15] for k, v in got.items()}, **ctx0)
            if target["kind"] == "import" and not target.get("cli"):
                # a host the import ADDED carries the first-seen value of the file (that is what
                # makes export -> import a faithful copy, whatever the two clocks say)
                full_now = table(work)
                seen_keys = set()
                for e in target.get("entries", []):
                    hk = (e.get("hostname"), e.get("port"))
                    if hk in seen_keys or hk in before_full or hk not in full_now or \
                            not isinstance(e.get("first_seen"), str):
                        seen_keys.add(hk)
                        continue
                    seen_keys.add(hk)
                    if full_now[hk][1] != e["first_seen"]:
                        res.violate("C12/import-does-not-reproduce-first-seen",
                                    f"imported host {hk!r}: first_seen in the file {e['first_seen']!r}, in "
                                    f"the store {full_now[hk][1]!r}", **ctx0)
                        break
            # 'after' for the fault runs is what the complete operation really produces
            allowed = [before, got]
        else:
            if got not in allowed:
                res.violate(f"C12/failed-operation-not-atomic/{_opkey(target)}",
                            f"the operation {outcome.replace(':', ' ')} and left the store neither "
                            f"as before nor as after (e.g. empty or partly updated)",
                            table={repr(k): v[:15] for k, v in got.items()}, **ctx0)
        sigs.add(((_opkey(target), 0, "none", outcome), False))

        # 2. every tick x {crash, error}; the error is either only reported, or reported after
        # the engine rolled the transaction back by itself (SQLITE_FULL / IOERR in a write)
        errkind = ch.pick("errflavour", ["error:disk I/O error", "error-rollback:database or disk is full"])
        if errkind.startswith("error-rollback"):
            res.stats["error_with_engine_rollback"] += 1
        for k in range(1, nticks + 1):
            for kind in ("crash", errkind):
                restore(work)
                crash_dir = os.path.join(scratch, "crashed")
                shutil.rmtree(crash_dir, ignore_errors=True)
                SEAM.reset(None)
                SEAM.enabled = True
                SEAM.fault_at = k
                SEAM.fault_kind = kind
                SEAM.crash_dir = crash_dir
                try:
                    do_op(TOFUDatabase(pathlib.Path(work)), target, scratch, "t")
                    oc = "returned"
                except SimCrash:
                    oc = "crashed"
                except BaseException as e:  # noqa
                    oc = "raised:" + type(e).__name__
                fired = SEAM.fired
                SEAM.enabled = False
                SEAM.fault_at = None
                evals += 1
                if fired is None:
                    continue
                nontriv += 1
                if oc == "crashed":
                    res.stats["crash_fired"] += 1
                    # reopen what the dead process left behind (hot journal recovery)
                    path = os.path.join(crash_dir, os.path.basename(work))
                    try:
                        TOFUDatabase(pathlib.Path(path))
                    except Exception:
                        pass
                    got = triples(table(path))
                    if fired[1] == "commit":
                        res.stats["crash_between_statement_and_commit"] += 1
                else:
                    res.stats["error_fired"] += 1
                    got = triples(table(work))
                sigs.add(((_opkey(target), k, kind[:5], oc, fired[2][:20]), True))
                ok = got in allowed
                if not ok:
                    fk = "crash" if oc == "crashed" else "error"
                    res.violate(f"C12/not-atomic-under-{fk}/{_opkey(target)}",
                                f"{fk} injected at tick {k} ({fired[1]}: {fired[2]!r}); afterwards "
                                f"the store is neither exactly as before nor exactly as after the "
                                f"operation", tick=k, fault=kind, outcome_with_fault=oc,
                                table={repr(kk): v[:15] for kk, v in got.items()}, **ctx0)
        if target["kind"] == "import":
            res.stats["replace_import" if not target["merge"] else "merge_import"] += 1
            if target["defect"]:
                res.stats["defective_import"] += 1
            if target["defect"] == "duplicate-host":
                res.stats["duplicate_host_import"] += 1
            if target["cb"] == "raises":
                res.stats["conflict_callback_raises"] += 1
            if target["cb"] == "interrupts":
                res.stats["conflict_callback_interrupted"] += 1
    if any(h not in HOSTNAMES[:2] for (h, p) in before):
        res.stats["weird_hostname"] += 1
    SEAM.enabled = True
    SEAM.reset(None)
    res.stats["target_executions"] += evals
    res.sim_seconds = 0.0
    res.signature = hashlib.sha256(repr(sorted(map(repr, sigs))).encode()).hexdigest()[:16]
    res.digest = hashlib.sha256(repr((hist, sorted(map(repr, sigs)))).encode()).hexdigest()[:16]
    res.nontrivial = nontriv > 0 or target["kind"] == "roundtrip"
    res.sample = {"history": hist[-4:], "executions": evals}
    res.extra_evaluations = evals
    res.extra_distinct = sigs
    return res


def _descr(op):
    d = f"{op['kind']} {op['host'][:30]!r}:{op['port']}"
    if op["kind"] == "import":
        d = (f"import merge={op['merge']} conflict={op['cb']} defect={op['defect']} "
             f"entries={[(e.get('hostname'), e.get('port')) for e in op['entries']][:6]!r:.200}")
    if op["kind"] in ("trust", "verify"):
        d += " " + op["cert"]
    return d


def _opkey(op):
    if op["kind"] == "import":
        return f"import-{'merge' if op['merge'] else 'replace'}"
    return op["kind"]
