"""C03 - TOFU: a pinned host is never accepted with a different certificate.

World: client-wire.  Histories of fetches, uploads, deletes, redirects,
trust-store operations and environment steps (certificate swaps, redirect
rewiring) over 3 hosts x 2 ports of scripted TLS servers and a pool of RSA /
Ed25519 / EC / parser-rejected certificates, TOFU on or off.

Oracle: an abstract map (host, port) -> fingerprint advanced operation by
operation; after every step the real table equals the model and every call's
outcome is the one the model prescribes.
"""

from __future__ import annotations

import asyncio
import hashlib
import os
import pathlib

from sim import fixtures as fx
from sim.runner import RunResult
from sim.storage import SEAM
from sim.tofuworld import HOSTS, HOST_WEIGHTS, NCA, PORTS, TofuWorld, load_cert, read_table, spell

PROPERTY = "C03"
LEVEL = "exploration"
TIERS = {"quick": 3000, "thorough": 250000}
CHUNK = 40
RULE = ("each run is a history of 1-12 operations drawn from get (with/without query), upload, "
        "delete, trust, revoke, revoke_by_hostname, clear, import_toml (merge/replace, conflict "
        "callback none/accept/refuse), 'host now presents certificate c' and 'host now redirects "
        "to h:p' over 6 endpoints and 9 certificates (RSA, Ed25519, EC, two that OpenSSL serves "
        "but the X.509 parser rejects), with TOFU on or off; the real known_hosts table is "
        "compared with an abstract pin map after every step. distinct = distinct (operation "
        "kinds, outcomes) vectors; non-trivial = at least one certificate change, unreadable "
        "certificate, redirect or store mutation was exercised")
PROBES = ["ca_validation_on_as_well", "cert_changed_detected", "unreadable_cert_presented", "redirect_hop_checked",
          "first_use_pinned", "pinned_match", "import_applied", "revoke_then_refetch", "tofu_off",
          "upload_checked", "ec_cert", "first_use_on_failing_endpoint", "overlapping_first_use", "near_miss_pin_imported", "mixed_case_host_spelling", "server_speaks_first_tls12", "failed_import_in_history",
          "overlapping_ops_different_endpoints", "sql_fault_during_operation",
          "chain_revisits_an_endpoint", "connection_dropped_after_request_then_certificate_swap",
          "storage_fault_during_trust", "client_used_as_context_manager_in_between",
          "restart_more_than_a_year_later", "storage_fault_while_client_is_created", "certificate_changed_between_two_hops_of_one_chain"]
COMPONENTS = {
    "real": ["nauyaca.client.session.GeminiClient (get/upload/delete, redirects)",
             "nauyaca.client.protocol", "nauyaca.security.tofu.TOFUDatabase on a real sqlite file",
             "nauyaca.security.certificates", "asyncio sslproto + OpenSSL client side"],
    "stub": ["sockets/selector/clock/DNS", "scripted TLS servers (own OpenSSL engine)"],
}
ASSUMPTIONS = ["fingerprints are computed by the harness with hashlib over the DER the scripted "
               "server was loaded with, never with the repo's helper"]

CERTS = fx.SERVER_CERTS + fx.CLONE_CERTS + fx.EXPIRED_CERTS + fx.BAD_CERTS
CW = [4] * len(fx.SERVER_CERTS) + [4] * len(fx.CLONE_CERTS) + [3] * len(fx.EXPIRED_CERTS) + [1] * len(fx.BAD_CERTS)


def run_one(ch):
    from nauyaca.client.session import GeminiClient
    from nauyaca.security.tofu import CertificateChangedError, TOFUDatabase
    res = RunResult()
    w = TofuWorld(ch, "c03")
    tofu_on = not ch.chance("tofu_off", 0.12)
    w.use_ec = ch.chance("ec", 0.15)
    w.cut = ch.choose("cut", 2)
    pool = CERTS + (fx.EC_CERTS if w.use_ec else [])
    cw = CW + [2] * (len(pool) - len(CW))
    good = fx.SERVER_CERTS
    # a share of the runs: CA validation switched on as well (verify_ssl=True) against
    # certificates that all pass it - a changed one is still a changed one
    ca_mode = tofu_on and not w.use_ec and ch.chance("ca_verified", 0.1)
    if ca_mode:
        pool, cw, good = fx.CA_CERTS, [1] * len(fx.CA_CERTS), fx.CA_CERTS
    certs = {}
    for h in HOSTS:
        for p in PORTS:
            certs[(h, p)] = pool[ch.choose("cert0", len(pool), cw)]
    w.setup_servers(certs)
    nops = 1 + ch.choose("nops", 12)
    model = {}
    st = {"hist": [], "changed": 0, "unreadable": 0, "redir": 0, "first": 0, "match": 0,
          "import": 0, "mutation": 0, "upload": 0, "refetch": 0, "failing": 0, "concurrent": 0, "nearmiss": 0, "mixedcase": 0, "speakfirst": 0, "failedimport": 0, "overlapdiff": 0, "sqlfault": 0, "revisit": 0, "revisit_changed": 0, "dropswap": 0, "trustfault": 0, "ctxmgr": 0, "yearlater": 0, "ctorfault": 0}
    revoked = set()

    def endpoint(label):
        nh = NCA if ca_mode else len(HOSTS)
        return (HOSTS[ch.choose(label + ".h", nh, HOST_WEIGHTS[:nh])], PORTS[ch.choose(label + ".p", 2, [3, 1])])

    def url_of(key, path="/", scheme="gemini"):
        h, p = key
        h = spell(ch, h)
        if h != key[0]:
            st["mixedcase"] += 1
        return f"{scheme}://{h}{'' if p == 1965 else ':%d' % p}{path}"

    def check_table(step):
        real = read_table(w.db_path)
        if real != model:
            extra = {k: v for k, v in real.items() if model.get(k) != v}
            missing = {k: v for k, v in model.items() if real.get(k) != v}
            res.violate("C03/pin-table-differs-from-model/" + step.split(" ")[0],
                        f"after step '{step}' the known_hosts table differs from the abstract "
                        f"pin map", unexpected_rows={f"{k[0]}:{k[1]}": v for k, v in extra.items()},
                        missing_or_wrong={f"{k[0]}:{k[1]}": v for k, v in missing.items()},
                        history=st["hist"][-8:])
            # resynchronise so that one divergence is reported once
            model.clear()
            model.update(real)

    async def main():
        client = GeminiClient(timeout=20.0, trust_on_first_use=tofu_on, verify_ssl=ca_mode,
                              tofu_db_path=pathlib.Path(w.db_path))
        db = client.tofu_db if tofu_on else TOFUDatabase(pathlib.Path(w.db_path))
        for i in range(nops):
            op = ch.choose("op", 19, [10, 4, 2, 2, 2, 1, 1, 3, 8, 4, 1, 3, 3, 3, 3, 3, 2, 1, 1])
            if op == 17:
                # the client object is used as a context manager in between and used on
                st["hist"].append("async with client: pass")
                async with client:
                    await asyncio.sleep(0)
                st["ctxmgr"] += 1
                continue
            if op == 18:
                # more than a year passes (virtual wall clock) and the program is restarted:
                # a new client object on the same store - pins do not expire
                await asyncio.sleep(400 * 86400.0)
                # ... possibly while the store hiccups: then no client comes into being - never
                # one that silently works without the pins
                SEAM.fired = None
                if tofu_on and ch.chance("ctorfault", 0.4):
                    SEAM.fault_at = SEAM.tick + 1 + ch.choose("ctortick", 3)
                    SEAM.fault_kind = "error:" + ch.pick("ctorerr", ["database is locked", "disk I/O error",
                                                                      "unable to open database file"])
                try:
                    newc = GeminiClient(timeout=20.0, trust_on_first_use=tofu_on, verify_ssl=ca_mode,
                                        tofu_db_path=pathlib.Path(w.db_path))
                except Exception as e:  # noqa
                    newc = None
                    st["hist"].append(f"400 days later: creating a new client failed ({type(e).__name__})")
                SEAM.fault_at = None
                if SEAM.fired:
                    st["ctorfault"] += 1
                if newc is not None:
                    client = newc
                    if tofu_on and (client.tofu_db is None or
                                    str(getattr(client.tofu_db, "db_path", "")) != str(w.db_path)):
                        res.violate("C03/client-without-its-pin-store",
                                    "a storage fault while the client was created produced a client that "
                                    "does not check pins against the configured store",
                                    history=st["hist"][-6:])
                        client = GeminiClient(timeout=20.0, trust_on_first_use=tofu_on, verify_ssl=ca_mode,
                                              tofu_db_path=pathlib.Path(w.db_path))
                    db = client.tofu_db if tofu_on else TOFUDatabase(pathlib.Path(w.db_path))
                    st["hist"].append("400 days later: new client object on the same store")
                st["yearlater"] += 1
                check_table(st["hist"][-1])
                continue
            if op in (0, 1, 2):
                key = endpoint("ep")
                kind = ["get", "upload", "delete"][op]
                path = ch.pick("path", ["/", "/x", "/x?q=1", ""]) if kind == "get" else "/up/f.txt"
                desc = f"{kind} {url_of(key, path)}"
                st["hist"].append(desc)
                # model walk
                expect = None          # ('resp', key) | ('changed', old, new) | ('unreadable',)
                cur = key
                hops = 0
                pend = dict(model)
                while True:
                    presented = w.servers[cur].cert
                    if tofu_on:
                        if presented in fx.BAD_CERTS:
                            expect = ("unreadable", cur)
                            break
                        fpv = fx.fp(presented)
                        pin = pend.get(cur)
                        if pin is None:
                            pend[cur] = fpv
                            st["first"] += 1
                            if cur in revoked:
                                st["refetch"] += 1
                        elif pin != fpv:
                            expect = ("changed", cur, pin, fpv)
                            break
                        else:
                            st["match"] += 1
                    if w.fail_mode.get(cur):
                        expect = ("fail", cur)      # verified/pinned, but no response comes
                        break
                    tgt = w.redirect.get(cur) if not w.speak_first.get(cur) else None
                    if kind == "get" and tgt is not None and hops < 4:
                        hops += 1
                        cur = tgt
                        st["redir"] += 1
                        continue
                    expect = ("resp", cur) if (kind != "get" or tgt is None) else ("redirect-limit",)
                    break
                if kind == "upload":
                    st["upload"] += 1
                # a storage fault at a drawn SQL tick of this operation
                SEAM.fired = None
                if tofu_on and ch.chance("sqlfault", 0.1):
                    SEAM.fault_at = SEAM.tick + 1 + ch.choose("sqltick", 5)
                    SEAM.fault_kind = "error:" + ch.pick("sqlerr", ["database is locked", "disk I/O error"])
                try:
                    if kind == "get":
                        r = await client.get(url_of(key, path))
                    elif kind == "upload":
                        r = await client.upload(url_of(key, path), b"payload-" + bytes([65 + i]),
                                                token="tok")
                    else:
                        r = await client.delete(url_of(key, path), token="tok")
                    got = ("resp", r)
                except CertificateChangedError as e:
                    got = ("changed", e)
                except Exception as e:  # noqa
                    got = ("err", e)
                SEAM.fault_at = None
                if SEAM.fired is not None:
                    # under a storage fault only the safety rules are demanded: a changed or
                    # unreadable certificate never yields a response; then continue from
                    # the real table (a pin may or may not have been written)
                    st["sqlfault"] += 1
                    st["hist"][-1] += f" [sql fault at {SEAM.fired[2][:30]!r}]"
                    if expect[0] in ("changed", "unreadable") and got[0] == "resp":
                        res.violate(f"C03/{expect[0]}-certificate-accepted/" + kind,
                                    "storage fault during the operation: a certificate that fails "
                                    "verification was accepted and a response returned",
                                    step=desc, history=st["hist"][-8:])
                    real_now = read_table(w.db_path)
                    if got[0] == "resp" and expect[0] == "resp":
                        # the call succeeded although the store hiccuped: then every hop it
                        # trusted on first use IS pinned (a success without a pin would let the
                        # next, different certificate in as "first use")
                        lost = {k: v for k, v in pend.items() if real_now.get(k) != v}
                        if lost:
                            res.violate("C03/response-without-pin/" + kind,
                                        "storage fault during the operation: a response was "
                                        "returned but the certificate presented on first use was "
                                        "not pinned", step=desc, history=st["hist"][-8:],
                                        not_pinned={f"{k[0]}:{k[1]}": v for k, v in lost.items()})
                    model.clear()
                    model.update(real_now)
                    continue
                # pins written on the way are durable even if a later hop fails
                if expect[0] in ("resp", "redirect-limit", "fail"):
                    model.clear()
                    model.update(pend)
                elif expect[0] in ("changed", "unreadable"):
                    model.clear()
                    model.update(pend)   # hops before the failing one were pinned legitimately
                ctx = dict(step=desc, tofu=tofu_on, history=st["hist"][-8:],
                           presented={f"{k[0]}:{k[1]}": s.cert for k, s in w.servers.items()},
                           got=(got[0], repr(got[1])[:300]))
                if expect[0] == "changed":
                    st["changed"] += 1
                    _, ck, old, new = expect
                    if got[0] == "resp":
                        res.violate("C03/changed-certificate-accepted/" + kind,
                                    f"{ck[0]}:{ck[1]} is pinned to {old[:20]}.. but presented "
                                    f"{new[:20]}..; the call returned a response", **ctx)
                    elif got[0] != "changed":
                        res.violate("C03/changed-certificate-wrong-error/" + kind,
                                    "certificate change did not raise CertificateChangedError", **ctx)
                    else:
                        msg = str(got[1])
                        if old not in msg or new not in msg:
                            res.violate("C03/changed-error-lacks-fingerprints/" + kind,
                                        "CertificateChangedError does not name both fingerprints",
                                        old=old, new=new, **ctx)
                elif expect[0] == "unreadable":
                    st["unreadable"] += 1
                    if got[0] == "resp":
                        res.violate("C03/unreadable-certificate-accepted/" + kind,
                                    f"{expect[1][0]}:{expect[1][1]} presented a certificate the "
                                    f"client cannot parse; the call returned a response instead of "
                                    f"refusing", **ctx)
                elif expect[0] == "fail":
                    st["failing"] += 1
                    if got[0] == "resp":
                        res.violate("C03/wrong-response/" + kind,
                                    "the endpoint never answers, yet a response was returned", **ctx)
                elif expect[0] == "resp":
                    ek = expect[1]
                    if got[0] != "resp":
                        res.violate("C03/valid-connection-refused/" + kind,
                                    "pin matched / first use on every hop but the call failed", **ctx)
                    elif got[1].status != 20 or f"hello from {ek[0]}:{ek[1]}" not in (got[1].body or ""):
                        res.violate("C03/wrong-response/" + kind,
                                    "the call returned something else than the final server's "
                                    "response", **ctx)
                else:
                    if got[0] == "resp" and got[1].status == 20:
                        res.violate("C03/wrong-response/" + kind, "unexpected success", **ctx)
            elif op == 3:
                key = endpoint("tr")
                c = ch.pick("trcert", good)
                st["hist"].append(f"trust {key[0]}:{key[1]} {c}")
                # explicit (re-)trust, possibly hit by a storage error at a drawn statement:
                # the pin is then the old one or the new one - never gone
                SEAM.fired = None
                if ch.chance("trustfault", 0.25):
                    SEAM.fault_at = SEAM.tick + 1 + ch.choose("trusttick", 5)
                    SEAM.fault_kind = "error:" + ch.pick("trusterr", ["database is locked", "disk I/O error"])
                try:
                    db.trust(key[0], key[1], load_cert(c))
                    failed = False
                except Exception:  # noqa
                    failed = True
                SEAM.fault_at = None
                if SEAM.fired is not None or failed:
                    st["trustfault"] += 1
                    st["hist"][-1] += " [storage fault]"
                    now_pin = read_table(w.db_path).get(key)
                    if now_pin not in (model.get(key), fx.fp(c)) or (now_pin is None and key in model):
                        res.violate("C03/pin-lost-by-failed-trust",
                                    f"trust() of {key[0]}:{key[1]} hit a storage error and left the "
                                    f"host with pin {now_pin!r} - neither the old nor the new one",
                                    old=model.get(key), new=fx.fp(c), history=st["hist"][-8:])
                    model.clear()
                    model.update(read_table(w.db_path))
                else:
                    model[key] = fx.fp(c)
                st["mutation"] += 1
            elif op == 4:
                key = endpoint("rv")
                st["hist"].append(f"revoke {key[0]}:{key[1]}")
                db.revoke(key[0], key[1])
                if model.pop(key, None) is not None:
                    revoked.add(key)
                st["mutation"] += 1
            elif op == 5:
                h = HOSTS[ch.choose("rvh", NCA if ca_mode else len(HOSTS))]
                st["hist"].append(f"revoke_by_hostname {h}")
                db.revoke_by_hostname(h)
                for k in [k for k in model if k[0] == h]:
                    del model[k]
                    revoked.add(k)
                st["mutation"] += 1
            elif op == 6:
                st["hist"].append("clear")
                db.clear()
                revoked.update(model)
                model.clear()
                st["mutation"] += 1
            elif op == 7:
                import tomli_w
                merge = bool(ch.choose("merge", 2))
                cb = ch.pick("cb", [None, "accept", "refuse"])
                n = 1 + ch.choose("nent", 3)
                ents = {}
                for _ in range(n):
                    k = endpoint("imp")
                    v = fx.fp(ch.pick("impcert", good))
                    # near-miss pins: equal to a real fingerprint except for one late digit
                    nm = ch.choose("nearmiss", 4, [5, 1, 1, 1])
                    if nm:
                        pos = {1: len(v) - 1, 2: len(v) - 20, 3: 30}[nm]
                        v = v[:pos] + ("0" if v[pos] != "0" else "1") + v[pos + 1:]
                        st["nearmiss"] += 1
                    ents[k] = v
                data = {"hosts": {f"{k[0]}:{k[1]}": {
                    "hostname": k[0], "port": k[1], "fingerprint": v,
                    "first_seen": "2024-01-01T00:00:00+00:00",
                    "last_seen": "2024-01-02T00:00:00+00:00"} for k, v in ents.items()}}
                f = pathlib.Path(w.scratch, f"imp{i}.toml")
                f.write_bytes(tomli_w.dumps(data).encode())
                st["hist"].append(f"import_toml merge={merge} conflict={cb} "
                                  f"{sorted((k[0], k[1], v[7:15]) for k, v in ents.items())}")
                fn = None if cb is None else (lambda *a: cb == "accept")
                broken = ch.chance("impdefect", 0.25)
                if broken:
                    # a LATER entry is malformed: the whole import must fail and change nothing
                    data["hosts"]["zzz-broken:1965"] = {"hostname": "zzz-broken", "port": 1965,
                                                        "fingerprint": "sha256:nothex",
                                                        "first_seen": "x", "last_seen": "y"}
                    f.write_bytes(tomli_w.dumps(data).encode())
                    st["hist"][-1] += " [malformed last entry]"
                    st["failedimport"] += 1
                try:
                    db.import_toml(f, merge=merge, on_conflict=fn)
                    raised = False
                except ValueError:
                    raised = True
                if broken != raised:
                    res.violate("C03/import-outcome-unexpected",
                                f"import with malformed entry={broken} raised={raised}",
                                history=st["hist"][-6:])
                if not broken:
                    if not merge:
                        model.clear()
                    for k, v in ents.items():
                        if k not in model or cb == "accept":
                            model[k] = v
                st["import"] += 1
                st["mutation"] += 1
            elif op == 8:
                key = endpoint("sw")
                c = pool[ch.choose("swcert", len(pool), cw)]
                cur = w.servers[key].cert
                if cur in fx.CLONE_CERTS and ch.chance("toclone", 0.6):
                    # an impostor that copies issuer, subject and serial number
                    c = fx.CLONE_CERTS[1 - fx.CLONE_CERTS.index(cur)]
                w.servers[key].cert = c
                st["hist"].append(f"env: {key[0]}:{key[1]} now presents {c}")
                continue
            elif op == 9:
                key = endpoint("rd")
                tgt = endpoint("rdt") if ch.choose("rdon", 3) else None
                if tgt == key:
                    tgt = None
                # keep chains one hop long here (graphs are C16's subject)
                if tgt is not None and (w.redirect.get(tgt) is not None or
                                        any(v == key for v in w.redirect.values())):
                    tgt = None
                w.redirect[key] = tgt
                if tgt is not None:
                    w.redirect_spelling[key] = spell(ch, tgt[0], "rdcase")
                st["hist"].append(f"env: {key[0]}:{key[1]} redirects to {tgt} "
                                  f"(spelled {w.redirect_spelling.get(key)})")
                continue
            elif op == 11:
                key = endpoint("fm")
                w.fail_mode[key] = ch.pick("failmode", [None, "close", "rst", "stall"], [2, 2, 2, 1])
                st["hist"].append(f"env: {key[0]}:{key[1]} failure mode {w.fail_mode[key]}")
                continue
            elif op == 16 and tofu_on:
                # the endpoint takes the request and drops the connection without a byte (crash,
                # restart); whoever answers on that port afterwards presents another certificate
                P = endpoint("dr")
                if w.fail_mode.get(P) or w.speak_first.get(P) or w.redirect.get(P) is not None:
                    continue
                A = w.servers[P].cert
                B = pool[ch.choose("drcert", len(pool), cw)]
                kind = ch.pick("drkind", ["get", "upload"], [3, 1])
                w.drop_once[P] = ch.pick("drhow", ["close", "rst"])
                w.servers[P].cert_queue = [A]
                w.servers[P].cert = B
                desc = f"{kind} {url_of(P, '/dropped')} [connection dropped after the request; {P[0]}:{P[1]} then presents {B}]"
                st["hist"].append(desc)
                st["dropswap"] += 1
                pend = dict(model)
                expect = "fail"
                if A in fx.BAD_CERTS:
                    expect = "unreadable"
                elif pend.get(P) is None:
                    pend[P] = fx.fp(A)
                elif pend[P] != fx.fp(A):
                    expect = "changed"
                try:
                    if kind == "get":
                        r = await client.get(desc.split(" ")[1])
                    else:
                        r = await client.upload(desc.split(" ")[1], b"payload", token="tok")
                    got = ("resp", r)
                except CertificateChangedError as e:
                    got = ("changed", e)
                except Exception as e:  # noqa
                    got = ("err", e)
                w.drop_once.pop(P, None)
                w.servers[P].cert_queue = []
                model.clear()
                model.update(pend)
                if got[0] == "resp" and B != A:
                    res.violate("C03/wrong-response/after-dropped-connection",
                                f"the connection that was verified was dropped without a response; "
                                f"a response was returned all the same (the peer answering next "
                                f"presents {B}, pinned/seen was {A})", step=desc, history=st["hist"][-8:],
                                got=repr(got[1])[:200])
                check_table(desc)
                continue
            elif op == 15 and tofu_on:
                # one fetch whose redirect chain comes back to an endpoint it already
                # visited (P -> P or P -> Q -> P); P may present another certificate on
                # the later connection: every hop is a new connection and is checked
                P = endpoint("rv")
                via = endpoint("rvq") if ch.choose("rvvia", 2) else P
                if any(w.fail_mode.get(k) or w.speak_first.get(k) for k in (P, via)):
                    continue
                A = w.servers[P].cert
                B = pool[ch.choose("rvcert", len(pool), cw)]
                if ch.chance("rvsame", 0.25):
                    B = A
                w.servers[P].cert_queue = [A]
                w.servers[P].cert = B
                w.redirect_seq[P] = [via, None]
                w.redirect_spelling.pop(P, None)
                if via != P:
                    w.redirect_seq[via] = [P]
                    w.redirect_spelling.pop(via, None)
                    seq = [(P, A), (via, w.servers[via].cert), (P, B)]
                else:
                    seq = [(P, A), (P, B)]
                desc = f"get {url_of(P, '/start')} [chain " + " -> ".join(
                    f"{k[0]}:{k[1]}({c})" for k, c in seq) + "]"
                st["hist"].append(desc)
                st["revisit"] += 1
                pend = dict(model)
                expect = ("resp", P)
                for k, pres in seq:
                    if pres in fx.BAD_CERTS:
                        expect = ("unreadable", k)
                        break
                    pin = pend.get(k)
                    if pin is None:
                        pend[k] = fx.fp(pres)
                    elif pin != fx.fp(pres):
                        expect = ("changed", k, pin, fx.fp(pres))
                        break
                try:
                    r = await client.get(desc.split(" ")[1])
                    got = ("resp", r)
                except CertificateChangedError as e:
                    got = ("changed", e)
                except Exception as e:  # noqa
                    got = ("err", e)
                w.redirect_seq.clear()
                w.servers[P].cert_queue = []
                model.clear()
                model.update(pend)
                ctx = dict(step=desc, history=st["hist"][-8:], got=(got[0], repr(got[1])[:300]))
                if expect[0] == "changed":
                    st["changed"] += 1
                    if len(seq) and expect[1] == P and pend.get(P) == fx.fp(A) and A != B:
                        st["revisit_changed"] += 1
                    if got[0] == "resp":
                        res.violate("C03/changed-certificate-accepted/revisited-endpoint",
                                    f"{expect[1][0]}:{expect[1][1]} is pinned to {expect[2][:20]}.. "
                                    f"but presented {expect[3][:20]}.. on a later hop of the same "
                                    f"chain; the call returned a response", **ctx)
                    elif got[0] != "changed":
                        res.violate("C03/changed-certificate-wrong-error/revisited-endpoint",
                                    "certificate change did not raise CertificateChangedError", **ctx)
                elif expect[0] == "unreadable":
                    if got[0] == "resp":
                        res.violate("C03/unreadable-certificate-accepted/revisited-endpoint",
                                    "a hop presented a certificate the client cannot parse; the "
                                    "call returned a response", **ctx)
                elif got[0] != "resp" or got[1].status != 20 or \
                        f"hello from {P[0]}:{P[1]}" not in (got[1].body or ""):
                    res.violate("C03/valid-connection-refused/revisited-endpoint",
                                "pin matched / first use on every hop but the call did not return "
                                "the final response", **ctx)
                check_table(desc)
                continue
            elif op == 14 and tofu_on:
                # two overlapping operations on ONE client to two DIFFERENT endpoints
                k1, k2 = endpoint("od1"), endpoint("od2")
                if k1 == k2 or any(w.redirect.get(k) is not None or w.fail_mode.get(k)
                                   or w.speak_first.get(k) for k in (k1, k2)):
                    continue
                kinds = [ch.pick("odkind1", ["get", "upload"]), ch.pick("odkind2", ["get", "upload"])]
                st["hist"].append(f"overlapping {kinds[0]} {url_of(k1)} + {kinds[1]} {url_of(k2)}")
                st["overlapdiff"] += 1
                exp = []
                for k in (k1, k2):
                    pres = w.servers[k].cert
                    if pres in fx.BAD_CERTS:
                        exp.append("err")
                    elif model.get(k) is None:
                        model[k] = fx.fp(pres)
                        exp.append("resp")
                    elif model[k] != fx.fp(pres):
                        exp.append("changed")
                    else:
                        exp.append("resp")

                async def od(k, kind):
                    try:
                        if kind == "get":
                            r = await client.get(url_of(k, "/x"))
                        else:
                            r = await client.upload(url_of(k, "/up/f.txt"), b"data", token="t")
                        ok = f"hello from {k[0]}:{k[1]}" in (r.body or "")
                        return "resp" if ok else "wrong-resp"
                    except CertificateChangedError:
                        return "changed"
                    except Exception:  # noqa
                        return "err"
                got2 = await asyncio.gather(od(k1, kinds[0]), od(k2, kinds[1]))
                if list(got2) != exp:
                    res.violate("C03/overlapping-operations-cross-talk",
                                f"two overlapping operations to different endpoints: expected {exp}, "
                                f"got {list(got2)}", step=st["hist"][-1], history=st["hist"][-8:],
                                presented={f"{k[0]}:{k[1]}": w.servers[k].cert for k in (k1, k2)})
            elif op == 13:
                key = endpoint("sf")
                on = bool(ch.choose("sfon", 2))
                w.speak_first[key] = on
                w.servers[key].tls12 = on
                st["speakfirst"] += 1 if on else 0
                st["hist"].append(f"env: {key[0]}:{key[1]} speaks first over TLS 1.2: {on}")
                continue
            elif op == 12 and tofu_on:
                # two overlapping fetches of one endpoint that presents c1 to the first
                # and c2 to the second connection
                key = endpoint("cc")
                if w.redirect.get(key) is not None or w.fail_mode.get(key):
                    continue
                c1 = ch.pick("cc1", good)
                c2 = ch.pick("cc2", good)
                w.servers[key].cert_queue = [c1, c2]
                st["hist"].append(f"concurrent 2x get {url_of(key)} presenting {c1},{c2}")
                st["concurrent"] += 1

                async def one():
                    try:
                        r = await client.get(url_of(key, "/x"))
                        return ("resp", r.status)
                    except CertificateChangedError:
                        return ("changed",)
                    except Exception as e:  # noqa
                        return ("err", repr(e)[:100])
                outs = await asyncio.gather(one(), one())
                w.servers[key].cert_queue = []
                real = read_table(w.db_path)
                pin0 = model.get(key)
                nresp = sum(1 for o in outs if o[0] == "resp")
                ctx = dict(step=st["hist"][-1], outcomes=outs, pin_before=pin0,
                           pin_after=real.get(key), history=st["hist"][-8:])
                pin1 = real.get(key)
                want = sum(1 for c in (c1, c2) if fx.fp(c) == (pin0 or pin1))
                if pin1 is None or (pin0 is not None and pin1 != pin0) or \
                        pin1 not in (fx.fp(c1), fx.fp(c2), pin0):
                    res.violate("C03/concurrent-first-use-pin-wrong",
                                "after two overlapping fetches the pin is missing, changed or "
                                "belongs to neither presented certificate", **ctx)
                elif nresp != want:
                    res.violate("C03/concurrent-connections-accepted-with-different-certificates",
                                f"{nresp} of two overlapping fetches succeeded, but only {want} "
                                f"presented the certificate that is pinned", **ctx)
                model.clear()
                model.update(real)
                continue
            else:
                st["hist"].append("noop")
                continue
            check_table(st["hist"][-1])

    import os
    old_ca = os.environ.get("SSL_CERT_FILE")
    if ca_mode:
        os.environ["SSL_CERT_FILE"] = fx.crt(fx.CA_FILE_NAME)
        res.stats["ca_validation_on_as_well"] += 1
    try:
        w.run(main, horizon=5 * 400 * 86400.0 + 1e6)
    finally:
        if ca_mode:
            if old_ca is None:
                os.environ.pop("SSL_CERT_FILE", None)
            else:
                os.environ["SSL_CERT_FILE"] = old_ca

    st_map = {"cert_changed_detected": "changed", "unreadable_cert_presented": "unreadable",
              "redirect_hop_checked": "redir", "first_use_pinned": "first", "pinned_match": "match",
              "import_applied": "import", "upload_checked": "upload", "revoke_then_refetch": "refetch",
              "first_use_on_failing_endpoint": "failing", "overlapping_first_use": "concurrent", "near_miss_pin_imported": "nearmiss", "mixed_case_host_spelling": "mixedcase", "server_speaks_first_tls12": "speakfirst", "failed_import_in_history": "failedimport",
              "overlapping_ops_different_endpoints": "overlapdiff",
              "sql_fault_during_operation": "sqlfault",
              "chain_revisits_an_endpoint": "revisit",
              "connection_dropped_after_request_then_certificate_swap": "dropswap",
              "storage_fault_during_trust": "trustfault",
              "client_used_as_context_manager_in_between": "ctxmgr",
              "restart_more_than_a_year_later": "yearlater",
              "storage_fault_while_client_is_created": "ctorfault",
              "certificate_changed_between_two_hops_of_one_chain": "revisit_changed"}
    for probe, k in st_map.items():
        if st[k]:
            res.stats[probe] += 1
    if not tofu_on:
        res.stats["tofu_off"] += 1
    if w.use_ec:
        res.stats["ec_cert"] += 1
    res.stats["operations"] += len(st["hist"])
    res.sim_seconds = w.net.now
    kinds = [h.split(" ")[0] for h in st["hist"]]
    res.signature = hashlib.sha256(repr((kinds, tofu_on, st["changed"], st["unreadable"],
                                         st["redir"])).encode()).hexdigest()[:16]
    res.digest = w.sim.digest(sizes=not w.use_ec)
    res.nontrivial = bool(st["changed"] or st["unreadable"] or st["redir"] or st["mutation"])
    res.sample = {"tofu": tofu_on, "history": st["hist"][:12]}
    return res
