"""C13 - client calls always terminate with a faithful response or a clear error.

World: client-wire.  60 % of the runs drive GeminiClientProtocol /
TitanClientProtocol over a plaintext simulated connection, 40 % the full
GeminiClient.get / upload over TLS with a drawn timeout.  The scripted server
sends a byte stream from a response grammar and its corruptions, in drawn
pieces, and ends with clean close, FIN without close_notify, RST or a stall
after a drawn prefix.

Oracle: termination by a deadline derived from the instant the server's last
action reached the client (or the timeout for a stalled server); faithful
response or Exception; must-succeed core; equality with the unsegmented
baseline.
"""

from __future__ import annotations

import asyncio
import codecs
import encodings.aliases
import hashlib
import pathlib

from sim import fixtures as fx
from sim.clientwire import ScriptedServer
from sim.net import DrawnPolicy, WholePolicy
from sim.runner import RunResult
from sim.world import Sim, fresh_dir

PROPERTY = "C13"
LEVEL = "exploration"
TIERS = {"quick": 5000, "thorough": 600000}
CHUNK = 60
RULE = ("each run draws a server byte stream from a response grammar (every status 10-69, metas "
        "with parameters, every charset label Python knows - text and non-text codecs - plus "
        "unknown labels, binary types) or a corruption of it (no CRLF, non-digit / one-digit / "
        "three-digit / out-of-range status, invalid UTF-8 header, header > 1024 bytes, body beyond "
        "the per-run cap of 4 KiB..1 MiB), a way the stream ends (close_notify, FIN, RST, stall "
        "after a drawn prefix), a segmentation and a client entry point (protocol classes on a "
        "plain connection, or GeminiClient.get/upload over TLS with a timeout of 1-30 s); baseline "
        "and segmented variant are both run. distinct = distinct (stream class, end, entry, result "
        "class); non-trivial = the stream was corrupted, cut short or segmented")
PROBES = ["wall_clock_stepped_during_call", "many_failed_connection_attempts_first", "server_answers_in_its_last_handshake_flight", "server_stream_damaged_in_transit", "overlapping_calls_on_one_client", "upload_larger_than_socket_buffers", "unknown_charset", "nontext_codec", "over_cap", "stall_timeout", "rst_mid_body",
          "fin_without_close_notify", "invalid_header", "must_succeed_core", "tls_entry",
          "titan_entry", "non2x_with_trailing_bytes", "connect_phase_fault", "trickling_server"]
COMPONENTS = {
    "real": ["nauyaca.client.protocol (both protocol classes)", "nauyaca.client.session "
             "(get/upload, wait_for timeouts)", "asyncio transports + sslproto, OpenSSL"],
    "stub": ["sockets/selector/clock", "scripted server streams"],
}
ASSUMPTIONS = ["d = 1 s of virtual slack after the server's last action reached the client",
               "FIN without close_notify after a complete response, and grammar grey zones (no "
               "space after status, unicode digits, header > 1024 bytes) are three-valued"]
HOST = "up.sim"

TEXT_CODECS = sorted({v for v in encodings.aliases.aliases.values()
                      if v not in ("base64_codec", "bz2_codec", "hex_codec", "quopri_codec",
                                   "rot_13", "uu_codec", "zlib_codec", "undefined", "mbcs", "oem",
                                   "tactis")})
NONTEXT = ["hex", "base64", "bz2", "zlib", "quopri", "uu", "rot_13", "undefined"]
UNKNOWN = ["klingon", "utf-9", "x-nonexistent", "", "utf8;", "none"]


def codec_ok(label):
    try:
        ci = codecs.lookup(label)
    except Exception:
        return False
    return getattr(ci, "_is_text_encoding", True)


def gen_stream(ch, cap):
    """Returns dict(stream, cls, ...)."""
    k = ch.choose("stream", 12, [8, 4, 3, 3, 3, 2, 2, 2, 2, 2, 2, 2])
    info = {"kind": k}
    body = b""
    if k == 0:      # well-formed 2x text, known charset
        label = ch.pick("codec", ["utf-8", "iso-8859-1", "utf-16", "shift_jis", "cp1252",
                                  "ascii", "koi8-r", "UTF-8", "latin1"] + TEXT_CODECS[:0])
        if ch.chance("anycodec", 0.4):
            label = TEXT_CODECS[ch.choose("codecix", len(TEXT_CODECS))]
        text = ch.pick("text", ["hello\n", "héllo wörld €\n", "日本語\n", "x" * 3000, ""])
        try:
            body = text.encode(label)
        except Exception:
            body = "plain ascii\n".encode(label, "ignore") if codec_ok(label) else b"plain"
        q = ch.pick("quote", ['%s', '"%s"', " %s "])
        meta = "text/" + ch.pick("sub", ["plain", "gemini"]) + "; charset=" + (q % label)
        if ch.chance("nocharset", 0.3):
            meta = "text/gemini"
            body = text.encode("utf-8")
        status = ch.pick("st2", [20, 21, 29])
        head = f"{status} {meta}\r\n".encode()
        info["cls"] = "good"
    elif k == 1:    # binary 2x
        n = ch.biased_size("blen", 0, min(cap, 60000), [0, 1, 1000])
        body = ch.bytes_("bin", n)
        head = b"20 " + ch.pick("bmime", [b"image/png", b"application/octet-stream",
                                          b"audio/ogg; codecs=opus"]) + b"\r\n"
        info["cls"] = "good"
    elif k == 2:    # non-2x, maybe with trailing bytes
        status = ch.pick("stx", [10, 11, 30, 31, 40, 44, 51, 59, 60, 62, 69, 12, 33, 47, 55, 68])
        meta = ch.pick("metax", ["prompt text", "gemini://x.sim/y", "error message", "", "ünï"])
        head = f"{status} {meta}\r\n".encode()
        if ch.chance("trail", 0.4):
            body = ch.bytes_("trailing", 1 + ch.choose("trailn", 500))
            info["trailing"] = True
        info["cls"] = "good-non2x"
    elif k == 3:    # unknown / non-text charset label
        label = (NONTEXT + UNKNOWN)[ch.choose("badcodec", len(NONTEXT) + len(UNKNOWN))]
        head = f"20 text/plain; charset={label}\r\n".encode()
        body = b"some body bytes\n"
        info["cls"] = "bad-charset"
        info["label"] = label
    elif k == 4:    # body not decodable in the declared charset
        head = b"20 text/plain; charset=utf-8\r\n"
        body = b"caf\xe9 \xff\xfe"
        info["cls"] = "undecodable"
    elif k == 5:    # no CRLF at all
        head = ch.pick("nocrlf", [b"20 text/plain", b"", b"2", b"20 text/plain\n", b"20 text/plain\r",
                                  b"x" * 3000])
        info["cls"] = "no-crlf"
    elif k == 6:    # bad status
        head = ch.pick("badst", [b"2 text/plain\r\n", b"200 ok\r\n", b"ab cd\r\n", b"09 low\r\n",
                                 b"70 high\r\n", b"99 high\r\n", b"-5 neg\r\n", b" 20 lead\r\n",
                                 b"\r\n", b"2x text\r\n", b"00 zero\r\n", b"20text/plain\r\n",
                                 b"51x not found\r\n", b"2000\r\n", b"310 gemini://x.sim/\r\n",
                                 b"100 prompt\r\n", b"20\ttext/plain\r\n"])
        body = b"body after bad status"
        info["cls"] = "bad-status"
    elif k == 7:    # invalid UTF-8 in header
        head = b"20 text/\xff\xfeplain\r\n"
        body = b"x"
        info["cls"] = "bad-header-utf8"
    elif k == 8:    # grey headers
        head = ch.pick("grey", [b"20\r\n", b"20 " + b"m" * 1100 + b"\r\n", b"+20 plus\r\n",
                                "２０ fullwidth\r\n".encode(), b"20  two spaces\r\n", b"20\ttab\r\n",
                                b"20 text/plain\nlf-only-then\r\n"])
        body = b"grey body"
        info["cls"] = "grey"
    elif k == 10:   # body exactly at / just below the cap: must be accepted
        head = ch.pick("athead", [b"20 application/octet-stream\r\n", b"20 image/png\r\n",
                                  b"20 application/x-" + b"p" * 900 + b"\r\n"])
        body = b"c" * max(0, cap - ch.pick("below", [0, 1, 16, 31, 64, 1000]))
        info["cls"] = "good"
    elif k == 11:   # more than the cap without any CRLF
        head = b"y" * (cap + 1 + ch.choose("nocrlfover", 3000))
        info["cls"] = "no-crlf"
    else:           # body beyond the cap
        head = b"20 application/octet-stream\r\n"
        body = b"z" * (cap + 1 + ch.choose("over", 5000))
        info["cls"] = "over-cap"
    info["head"] = head
    info["body"] = body
    info["stream"] = head + body
    return info


def expectation(info, end, prefix_len, cap):
    """What the property demands of a call given the bytes actually sent."""
    trickle = end == "trickle"
    if trickle:
        end = "stall"      # a server that never finishes, whether silent or dribbling
    sent = info["stream"][:prefix_len]
    i = sent.find(b"\r\n")
    exp = {"verdict": "either", "prompt": end != "stall", "timeout": False, "body": None,
           "status": None}
    if trickle and len(sent) + 16 > cap >= len(sent) - 1100:
        # the dribbled bytes themselves may cross the cap: an error, at the cap or at
        # the timeout, whichever the byte count says - not pinned down here
        exp.update(verdict="error", prompt=False)
        return exp
    if i < 0:
        if len(sent) > cap:
            exp.update(verdict="error", prompt=True)
        elif end == "stall":
            exp.update(verdict="error", timeout=True, prompt=False)
        else:
            exp.update(verdict="error")
        return exp
    head, rest = sent[:i], sent[i + 2:]
    try:
        htxt = head.decode("utf-8")
    except UnicodeDecodeError:
        exp.update(verdict="error", prompt=True)
        return exp
    strict = len(htxt) >= 3 and htxt[:2].isascii() and htxt[:2].isdigit() and htxt[2] == " "
    status = int(htxt[:2]) if strict else None
    token = htxt.split(" ", 1)[0]
    if token.isascii() and ((token.isdigit() and len(token) != 2) or
                            (token[:1].isdigit() and not token.isdigit())):
        # '2', '200', '2000', '20text/plain', '51x', '2x', '20\ttext': not a two-digit status
        exp.update(verdict="error", prompt=True)
        return exp
    if strict and not 10 <= status <= 69:
        exp.update(verdict="error", prompt=True)
        return exp
    if not strict:
        # grey header grammar: only faithfulness of whatever is returned is checked
        exp.update(verdict="either", prompt=(end != "stall"))
        if end == "stall":
            exp["prompt"] = False
        return exp
    exp["status"] = status
    meta = htxt[3:]
    if len(head) > 1024 + 3 or "\n" in meta or "\r" in meta:
        exp["verdict"] = "either"
        return exp
    if not 20 <= status <= 29:
        exp.update(verdict="resp", prompt=True, body=None)
        return exp
    if len(rest) > cap:
        exp.update(verdict="error", prompt=True)
        return exp
    # 2x: body = everything after CRLF until end of stream
    if end == "stall":
        exp.update(verdict="error", timeout=True, prompt=False)
        return exp
    mime = meta.split(";")[0].strip().lower()
    is_text = mime.startswith("text/") or mime == ""
    want = rest
    if is_text:
        label = "utf-8"
        for part in meta.split(";")[1:]:
            part = part.strip()
            if part.lower().startswith("charset="):
                label = part.split("=", 1)[1].strip().strip("\"'")
                break
        if not codec_ok(label):
            exp.update(verdict="error-or-raw", body=rest)
            return exp
        try:
            want = rest.decode(label)
        except Exception:
            exp.update(verdict="error-or-raw", body=rest)
            return exp
    exp["body"] = want
    if end == "close":
        complete = prefix_len >= len(info["stream"])
        exp["verdict"] = "resp" if complete or True else "either"
    elif end == "rst":
        exp["verdict"] = "error-or-resp"      # a reset after the data: error expected, data-only ok
    else:
        exp["verdict"] = "either"             # FIN without close_notify
    return exp


def run_case(ch, cfg, variant, damage=None):
    from nauyaca.client import protocol as cproto
    from nauyaca.client.session import GeminiClient
    sim = Sim(ch)
    net = sim.net
    info = cfg["info"]
    if cfg.get("wallstep"):
        net.step_wall_clock(*cfg["wallstep"])
    sent = info["stream"][:cfg["prefix"]]
    if not variant:
        pieces = [(0.0, sent)] if sent else []
    else:
        pieces = cfg["pieces"]
    script = []
    if cfg["trigger"] == "line":
        script.append(("wait_line",))
    for d, c in pieces:
        if d:
            script.append(("sleep", d))
        script.append(("send", c))
    marks = {}

    def mark(p):
        marks["t_end"] = net.now
    script.append(("call", mark))
    if cfg["end"] == "trickle":
        # never finishes, but keeps sending one byte at intervals shorter than the timeout
        gap = cfg["timeout"] / 4.0
        for _ in range(16):
            script += [("sleep", gap), ("send", b"x")]
        script.append(("stall",))
    else:
        script.append({"close": ("close",), "fin": ("fin",), "rst": ("rst",),
                       "stall": ("stall",)}[cfg["end"]])
    tls = cfg["entry"] in ("get", "upload")
    srv = ScriptedServer(sim, HOST, 1965, "rsa1", lambda i, s: {"script": script}, tls=tls)
    # TLS 1.2: the server's Finished is the last handshake message, so a server that does not
    # wait for the request puts its answer into the same flight (and the same read)
    srv.tls12 = bool(cfg.get("tls12"))
    if variant:
        pol = DrawnPolicy(ch, "s2c", cfg["segmode"], latency=0.001, delays=[0.001, 0.0, 0.01, 0.05],
                          dribble_limit=300)
    else:
        pol = WholePolicy(0.001)
    sim.loop.link_for_connect = lambda h, p: {"s2c": pol, "corrupt_s2c": damage}
    old_cap = cproto.MAX_RESPONSE_BODY_SIZE
    cproto.MAX_RESPONSE_BODY_SIZE = cfg["cap"]
    out = {}
    T = cfg["timeout"]

    async def main():
        t0 = net.now
        out["t0"] = t0
        try:
            if cfg["entry"] == "get":
                cl = GeminiClient(timeout=T, trust_on_first_use=cfg["tofu"],
                                  tofu_db_path=pathlib.Path(cfg["scratch"], "t.db"))
                r = await cl.get(f"gemini://{HOST}/x", follow_redirects=False)
            elif cfg["entry"] == "upload":
                cl = GeminiClient(timeout=T, trust_on_first_use=cfg["tofu"],
                                  tofu_db_path=pathlib.Path(cfg["scratch"], "t.db"))
                r = await cl.upload(f"gemini://{HOST}/up", b"content", token="t")
            else:
                loop = asyncio.get_running_loop()
                fut = loop.create_future()
                if cfg["entry"] == "proto-gemini":
                    proto = cproto.GeminiClientProtocol(f"gemini://{HOST}/x", fut)
                else:
                    proto = cproto.TitanClientProtocol(f"titan://{HOST}/up;size=3;mime=text/plain",
                                                       b"abc", fut)
                tr, _ = await loop.create_connection(lambda: proto, host=HOST, port=1965)
                try:
                    r = await asyncio.wait_for(fut, timeout=T)
                finally:
                    tr.close()
            out["res"] = ("resp", r.status, r.meta, r.body)
        except BaseException as e:  # noqa
            out["res"] = ("exc", type(e).__name__, str(e)[:200], isinstance(e, Exception)
                          and not isinstance(e, asyncio.CancelledError))
        out["t_done"] = net.now

    try:
        status = sim.run(main(), horizon=3 * T + 60.0, max_iterations=800000)
    finally:
        cproto.MAX_RESPONSE_BODY_SIZE = old_cap
    if sim.error is not None:
        raise sim.error
    out["status"] = status
    out["t_end"] = marks.get("t_end")
    out["now"] = net.now
    out["sig"] = sim.signature()
    out["digest"] = sim.digest()
    out["exc"] = sim.loop.exceptions[:3]
    peer = srv.conns[0] if srv.conns else None
    out["t_last_delivery"] = peer.ep.tx.last_arrival if peer else None
    out["t_connected"] = peer.t_hs_done if (peer and tls) else (peer.t_accept if peer else None)
    out["s2c_sent"] = peer.ep.tx.sent if peer else 0
    return out


def connect_fault_case(ch, res):
    """Faults before any response byte: refused / black-holed connect, a server
    that never answers the ClientHello, a server that answers it with garbage."""
    from nauyaca.client.session import GeminiClient
    sim = Sim(ch)
    net = sim.net
    fault = ch.pick("cfault", ["refuse", "blackhole", "tls-stall", "tls-garbage", "rst-at-accept"])
    entry = ch.pick("centry", ["get", "upload"])
    T = ch.pick("ctimeout", [5.0, 1.0, 30.0])
    tofu = bool(ch.choose("ctofu", 2))
    scratch = fresh_dir("c13c")
    if fault == "tls-stall":
        ScriptedServer(sim, HOST, 1965, "rsa1", lambda i, s: {"script": [("stall",)], "reader": "never"},
                       tls=False)
    elif fault == "tls-garbage":
        ScriptedServer(sim, HOST, 1965, "rsa1",
                       lambda i, s: {"script": [("send", b"20 text/plain\r\nthis is not TLS\n"), ("close",)]},
                       tls=False)
    elif fault == "rst-at-accept":
        ScriptedServer(sim, HOST, 1965, "rsa1", lambda i, s: {"script": [("rst",)]}, tls=False)
    sim.loop.link_for_connect = lambda h, p: ({"outcome": "blackhole"} if fault == "blackhole" else {})
    out = {}

    # a long-lived client that met the fault many times before (failures must not use anything up)
    repeats = ch.pick("crepeat", [0, 0, 9, 12]) if fault in ("refuse", "rst-at-accept", "tls-garbage") else 0
    if repeats:
        res.stats["many_failed_connection_attempts_first"] += 1

    async def main():
        cl = GeminiClient(timeout=T, trust_on_first_use=tofu, tofu_db_path=pathlib.Path(scratch, "t.db"))
        for _ in range(repeats):
            try:
                await cl.get(f"gemini://{HOST}/x")
            except Exception:  # noqa
                pass
        try:
            if entry == "get":
                r = await cl.get(f"gemini://{HOST}/x")
            else:
                r = await cl.upload(f"gemini://{HOST}/up", b"content", token="t")
            out["res"] = ("resp", r.status)
        except BaseException as e:  # noqa
            out["res"] = ("exc", type(e).__name__, isinstance(e, Exception)
                          and not isinstance(e, asyncio.CancelledError))
        out["t_done"] = net.now
    status = sim.run(main(), horizon=3 * T + 60.0, max_iterations=400000)
    if sim.error is not None:
        raise sim.error
    r = out.get("res")
    ctx = dict(fault=fault, entry=entry, timeout=T, tofu=tofu, result=r, t_done=out.get("t_done"))
    if status != "done" or r is None:
        res.violate(f"C13/call-never-returned/connect-{fault}/{entry}",
                    f"the call was still pending when the simulation ran out ({status})", **ctx)
    else:
        slow = fault in ("blackhole", "tls-stall")
        limit = ((T + 1.0) if slow else 1.0) + repeats * 1.0
        if out["t_done"] > limit:
            res.violate(f"C13/connect-fault-not-bounded/{fault}/{entry}",
                        f"connect-phase fault '{fault}': call ended at {out['t_done']:.3f}, bound "
                        f"{limit:.3f}", **ctx)
        if r[0] == "resp":
            res.violate(f"C13/response-from-nowhere/{fault}/{entry}",
                        "a response was returned although the server never sent one", **ctx)
        elif not r[2]:
            res.violate(f"C13/non-exception-escaped/{r[1]}/{entry}",
                        f"the call raised {r[1]}, not an ordinary Exception", **ctx)
        elif slow and r[1] != "TimeoutError":
            res.violate(f"C13/stall-not-timeout-error/{entry}",
                        f"'{fault}' ended in {r[1]} instead of TimeoutError", **ctx)
    res.stats["connect_phase_fault"] += 1
    res.sim_seconds = net.now
    res.signature = hashlib.sha256(repr(("connect", fault, entry, T, (r or ("none",))[:2])).encode()
                                   ).hexdigest()[:16]
    res.digest = sim.digest()
    res.nontrivial = True
    res.sample = ctx
    return res


def big_upload_case(ch, res):
    """An upload too large for the socket buffers against a server that stops
    reading: the call still ends - at the timeout, or with the server's early
    answer - and a server that reads everything is answered faithfully."""
    from nauyaca.client.session import GeminiClient
    sim = Sim(ch)
    net = sim.net
    size = ch.pick("usize", [300_000, 1_200_000, 3_000_000])
    how = ch.pick("uhow", ["never-reads", "answers-without-reading", "reads-some-then-stops",
                           "reads-all"], [3, 3, 2, 2])
    T = ch.pick("utimeout", [5.0, 1.0, 12.0])
    tofu = bool(ch.choose("utofu", 2))
    scratch = fresh_dir("c13u")
    content = (b"0123456789abcdef" * (size // 16 + 1))[:size]
    line_len = len(f"titan://{HOST}/up;size={size};mime=application/octet-stream;token=t\r\n")

    def beh(i, srv):
        if how == "never-reads":
            return {"script": [("stall",)], "reader": "never"}
        if how == "answers-without-reading":
            return {"script": [("sleep", 0.05), ("send", b"59 upload too large\r\n"), ("close",)],
                    "reader": "never"}
        if how == "reads-some-then-stops":
            return {"script": [("wait_bytes", 100_000),
                               ("call", lambda p: setattr(p, "reader", "never")), ("stall",)]}
        return {"script": [("wait_bytes", line_len + size), ("send", b"20 text/plain\r\nstored\n"),
                           ("close",)]}
    ScriptedServer(sim, HOST, 1965, "rsa1", beh, tls=True)
    out = {}

    async def main():
        cl = GeminiClient(timeout=T, trust_on_first_use=tofu, tofu_db_path=pathlib.Path(scratch, "t.db"))
        try:
            r = await cl.upload(f"gemini://{HOST}/up", content, mime_type="application/octet-stream",
                                token="t")
            out["res"] = ("resp", r.status, r.meta, r.body)
        except BaseException as e:  # noqa
            out["res"] = ("exc", type(e).__name__, isinstance(e, Exception)
                          and not isinstance(e, asyncio.CancelledError))
        out["t_done"] = net.now
    status = sim.run(main(), horizon=3 * T + 120.0, max_iterations=3_000_000)
    if sim.error is not None:
        raise sim.error
    r = out.get("res")
    ctx = dict(upload_size=size, server=how, timeout=T, tofu=tofu, result=r and r[:3],
               t_done=out.get("t_done"))
    if status != "done" or r is None:
        res.violate(f"C13/call-never-returned/big-upload/{how}",
                    f"the upload was still pending when the simulation ran out ({status})", **ctx)
    elif how in ("never-reads", "reads-some-then-stops"):
        if out["t_done"] > T + 12.0:
            # the bound is generous: time to hand the content over is not pinned down
            res.violate(f"C13/never-finishing-server-not-cut-off/big-upload/{how}",
                        f"server stopped reading and never answered: call ended at "
                        f"{out['t_done']:.3f}, timeout {T}", **ctx)
        if r[0] == "resp":
            res.violate(f"C13/response-from-nowhere/big-upload/{how}",
                        "a response was returned although the server never sent one", **ctx)
        elif not r[2]:
            res.violate(f"C13/non-exception-escaped/{r[1]}/big-upload",
                        f"the call raised {r[1]}, not an ordinary Exception", **ctx)
    elif how == "answers-without-reading":
        if r[0] == "resp":
            if (r[1], r[2], r[3]) != (59, "upload too large", None):
                res.violate("C13/unfaithful-response/big-upload",
                            "the response returned is not what the server sent", **ctx)
            elif out["t_done"] > 1.0 + 0.5:
                res.violate("C13/not-prompt-after-peer-finished/big-upload",
                            f"server answered 59 and closed at 0.05 s; the call ended at "
                            f"{out['t_done']:.3f}", **ctx)
        elif not r[2] or out["t_done"] > T + 12.0:
            res.violate(f"C13/call-not-bounded/big-upload/{how}",
                        f"call ended at {out['t_done']:.3f} with {r[1]}", **ctx)
    else:
        if r[0] != "resp" or (r[1], r[2], r[3]) != (20, "text/plain", "stored\n"):
            if not (r[0] == "exc" and r[1] == "TimeoutError" and out["t_done"] >= T):
                res.violate("C13/unfaithful-response/big-upload",
                            "the server read the whole upload and answered 20; the call did not "
                            "return that response", **ctx)
    res.stats["upload_larger_than_socket_buffers"] += 1
    res.sim_seconds = net.now
    res.signature = hashlib.sha256(repr(("bigup", size, how, T, (r or ("none",))[:2])).encode()
                                   ).hexdigest()[:16]
    res.digest = sim.digest()
    res.nontrivial = True
    res.sample = ctx
    return res


def overlap_case(ch, res):
    """Several calls in flight on ONE client object (the proxy handler shares its
    client this way): each call's result is its own server stream, whatever the
    other calls are doing and whichever finishes first."""
    from nauyaca.client.session import GeminiClient
    sim = Sim(ch)
    net = sim.net
    n = 2 + ch.choose("on", 2, [3, 1])
    T = ch.pick("otimeout", [5.0, 30.0])
    tofu = bool(ch.choose("otofu", 2))
    scratch = fresh_dir("c13o")
    plans = []
    for i in range(n):
        plans.append({
            "start": ch.pick("ostart", [0.0, 0.001, 0.05, 0.3]) if i else 0.0,
            "gap": ch.pick("ogap", [0.0, 0.02, 0.2, 1.0]),
            "kind": ch.pick("okind", ["get", "upload"], [3, 1]),
            "end": ch.pick("oend", ["close", "rst-early", "stall"], [6, 1, 1]),
            "status": ch.pick("ostatus", [20, 20, 51, 30]),
            "len": ch.pick("olen", [10, 2000, 40000]),
        })
    by_path = {}

    def beh(idx, srv):
        def respond(peer):
            line = bytes(peer.rx_plain).split(b"\r\n")[0].decode("latin-1")
            k = int(line.split("/call")[1][0]) if "/call" in line else 0
            peer.plan_k = k
            pl = plans[k]
            body = (f"call {k} line\n" * (pl["len"] // 12 + 1)).encode()[:pl["len"]]
            pl["body"] = body
            if pl["end"] == "rst-early":
                peer.outq.clear()
                peer.closed = True
                peer.ep.rst()
                return
            if pl["status"] == 20:
                peer.send_app(b"20 text/plain\r\n" + body[:len(body) // 2])
            else:
                peer.send_app(f"{pl['status']} meta of call {k}\r\n".encode())

        def rest(peer):
            pl = plans[peer.plan_k]
            if pl["end"] == "rst-early":
                return
            if pl["status"] == 20:
                peer.send_app(pl["body"][len(pl["body"]) // 2:])
            if pl["end"] == "stall":
                peer.stalled = True
                peer.waiting = "sleep"     # never woken: the script ends here
        return {"script": [("wait_line",), ("call", respond),
                           ("call", lambda p: (setattr(p, "waiting", "sleep"),
                                               net.after(plans[p.plan_k]["gap"], p._wake))),
                           ("call", rest), ("close",)]}
    ScriptedServer(sim, HOST, 1965, "rsa1", beh, tls=True)
    results = {}

    async def main():
        cl = GeminiClient(timeout=T, trust_on_first_use=tofu, tofu_db_path=pathlib.Path(scratch, "t.db"))

        async def one(k):
            pl = plans[k]
            if pl["start"]:
                await asyncio.sleep(pl["start"])
            t0 = net.now
            try:
                if pl["kind"] == "get":
                    r = await cl.get(f"gemini://{HOST}/call{k}", follow_redirects=False)
                else:
                    r = await cl.upload(f"gemini://{HOST}/call{k}", b"payload %d" % k, token="t")
                results[k] = ("resp", r.status, r.meta, r.body, net.now - t0)
            except BaseException as e:  # noqa
                results[k] = ("exc", type(e).__name__, str(e)[:120], None, net.now - t0)
        await asyncio.gather(*[one(k) for k in range(n)])
    status = sim.run(main(), horizon=3 * T + 60.0, max_iterations=800000)
    if sim.error is not None:
        raise sim.error
    ctx = dict(calls=[{k: v for k, v in pl.items() if k != "body"} for pl in plans], timeout=T,
               tofu=tofu, results={k: (v[0], v[1], v[2], v[4]) for k, v in results.items()})
    if status != "done" or len(results) != n:
        res.violate("C13/call-never-returned/overlapping-calls",
                    f"a call was still pending when the simulation ran out ({status})", **ctx)
    else:
        for k, pl in enumerate(plans):
            r = results[k]
            if pl["end"] == "close":
                want = ("resp", 20, "text/plain", pl["body"].decode()) if pl["status"] == 20 else \
                    ("resp", pl["status"], f"meta of call {k}", None)
                if r[:4] != want:
                    res.violate("C13/unfaithful-response/overlapping-calls",
                                f"call {k} on a shared client did not return its own server's "
                                f"complete response (got {r[:3]!r}, body "
                                f"{len(r[3]) if r[3] is not None else None} of "
                                f"{len(pl.get('body', b''))} bytes)", **ctx)
                    break
            elif r[0] == "resp" and pl["status"] == 20:
                res.violate("C13/unfaithful-response/overlapping-calls",
                            f"call {k}: the server {pl['end']} yet a 2x response was returned", **ctx)
                break
    res.stats["overlapping_calls_on_one_client"] += 1
    res.sim_seconds = net.now
    res.signature = hashlib.sha256(repr(("overlap", [(p["kind"], p["end"], p["status"], p["gap"],
                                                      p["start"]) for p in plans],
                                         sim.signature())).encode()).hexdigest()[:16]
    res.digest = sim.digest()
    res.nontrivial = True
    res.sample = ctx
    return res


def run_one(ch):
    res = RunResult()
    if ch.chance("connectfault", 0.08):
        return connect_fault_case(ch, res)
    if ch.chance("overlap", 0.04):
        return overlap_case(ch, res)
    if ch.chance("bigupload", 0.03):
        return big_upload_case(ch, res)
    cap = ch.pick("cap", [1 << 20, 4096, 65536, 16384])
    info = gen_stream(ch, cap)
    n = len(info["stream"])
    end = ch.pick("end", ["close", "fin", "rst", "stall", "trickle"], [6, 2, 2, 3, 2])
    prefix = n
    if ch.chance("cutshort", 0.35):
        prefix = ch.choose("prefix", n + 1)
    entry = ch.pick("entry", ["proto-gemini", "proto-titan", "get", "upload"], [4, 2, 3, 1])
    T = ch.pick("timeout", [5.0, 1.0, 30.0, 12.0])
    sent = info["stream"][:prefix]
    # variant pieces
    cuts = set()
    if len(sent) >= 2:
        for _ in range(ch.choose("npieces", 4)):
            cuts.add(1 + ch.choose("pcut", len(sent) - 1))
        i = sent.find(b"\r\n")
        if i >= 0 and ch.chance("cutcrlf", 0.4):
            cuts.add(i + 1)
    edges = [0] + sorted(c for c in cuts if 0 < c < len(sent)) + [len(sent)]
    pieces = []
    for a, b in zip(edges, edges[1:]):
        if b > a:
            d = ch.pick("pdelay", [0.0, 0.002, 0.1], [4, 3, 1]) if a else 0.0
            pieces.append((d, sent[a:b]))
    cfg = {"info": info, "prefix": prefix, "end": end, "entry": entry, "timeout": T, "cap": cap,
           "pieces": pieces, "segmode": ch.choose("segmode", 3, [2, 3, 1]),
           "trigger": ch.pick("trigger", ["line", "immediate"], [4, 1]),
           "tofu": bool(ch.choose("tofu", 2)), "scratch": fresh_dir("c13")}
    if cfg["trigger"] == "immediate" and entry in ("get", "upload") and ch.chance("tls12", 0.6):
        cfg["tls12"] = True
        res.stats["server_answers_in_its_last_handshake_flight"] += 1
    if entry in ("get", "upload") and ch.chance("wallstep", 0.12):
        # the wall clock is stepped while the client is connecting or waiting (NTP correction,
        # VM resume): the call's deadlines are a matter of the monotonic clock
        cfg["wallstep"] = (ch.pick("wallstep.t", [0.0015, 0.0035, 0.5]),
                           ch.pick("wallstep.d", [-3600.0, -T, T + 1.0, 3600.0]))
        res.stats["wall_clock_stepped_during_call"] += 1
    base = run_case(ch, cfg, False)
    cfg["scratch"] = fresh_dir("c13b")
    var = run_case(ch, cfg, True)
    exp = expectation(info, end, prefix, cap)

    ctx = dict(entry=entry, stream_class=info["cls"], head=info["head"][:80], end=end,
               sent_len=prefix, stream_len=n, cap=cap, timeout=T, expectation=exp["verdict"],
               baseline=_r(base), variant=_r(var))
    for name, o in (("baseline", base), ("variant", var)):
        r = o.get("res")
        if o["status"] != "done" or r is None:
            res.violate(f"C13/call-never-returned/{info['cls']}/{entry}",
                        f"{name}: the call was still pending when the simulation ran out "
                        f"({o['status']}) although it has a timeout of {T} s", **ctx)
            continue
        t_done = o["t_done"]
        # termination deadline
        if exp["prompt"] and o["t_end"] is not None:
            limit = max(o["t_end"], o["t_last_delivery"] or 0.0) + 1.0
            if t_done > limit:
                res.violate(f"C13/not-prompt-after-peer-finished/{info['cls']}/{end}/{entry}",
                            f"{name}: the server's last action reached the client at "
                            f"{limit - 1.0:.3f} but the call only ended at {t_done:.3f} "
                            f"(result {r[:2]})", loop_exceptions=o["exc"], **ctx)
        else:
            limit = (o["t_connected"] if o["t_connected"] is not None else o["t0"]) + T + 1.0
            if t_done > limit:
                res.violate(f"C13/timeout-not-enforced/{end}/{entry}",
                            f"{name}: call ended at {t_done:.3f}; the response wait started at "
                            f"{limit - T - 1.0:.3f} and the timeout is {T} s", **ctx)
        # result class
        if r[0] == "exc":
            if not r[3]:
                res.violate(f"C13/non-exception-escaped/{r[1]}/{entry}",
                            f"{name}: the call raised {r[1]}, not an ordinary Exception", **ctx)
            if exp["verdict"] == "resp":
                res.violate(f"C13/valid-response-rejected/{info['cls']}/{entry}",
                            f"{name}: a well-formed, complete response ended in {r[1]}: {r[2]}",
                            **ctx)
            if exp["timeout"] and r[1] != "TimeoutError" and exp["verdict"] == "error":
                # a stalled server must end in a timeout error (other errors only if decidable)
                if info["cls"] in ("good", "no-crlf") and end in ("stall", "trickle"):
                    res.violate(f"C13/stall-not-timeout-error/{entry}",
                                f"{name}: stalled server ended in {r[1]} instead of TimeoutError",
                                **ctx)
        else:
            _, status, meta, body = r
            if exp["verdict"] == "error":
                res.violate(f"C13/invalid-stream-accepted/{info['cls']}/{entry}",
                            f"{name}: the stream must end in an error but a response "
                            f"(status {status}) was returned", **ctx)
            if not isinstance(status, int) or not 10 <= status <= 69:
                res.violate(f"C13/status-out-of-range-returned/{entry}",
                            f"{name}: response with status {status!r}", **ctx)
            elif not 20 <= status <= 29:
                if body:
                    res.violate(f"C13/body-on-non-2x/{entry}",
                                f"{name}: non-2x response carries a body", **ctx)
            elif exp["status"] is not None:
                want = exp["body"]
                sent_b = info["stream"][:prefix]
                raw = sent_b[sent_b.find(b"\r\n") + 2:]
                okb = (body == want) or (want in (b"", "") and body in (None, b"", "")) or \
                    (exp["verdict"] == "error-or-raw" and body == raw)
                if not okb and exp["verdict"] != "either":
                    res.violate(f"C13/body-not-faithful/{info['cls']}/{entry}",
                                f"{name}: returned body differs from the bytes after the first "
                                f"CRLF (decoded with the declared charset)",
                                got_body=(body[:80] if body is not None else None),
                                want_body=(want[:80] if want is not None else None), **ctx)
    # the same stream once more with ONE BYTE INVERTED IN TRANSIT somewhere in the server's
    # TLS stream (handshake flights or application records): TLS detects it, so the call
    # ends in an error - or, if the damage came after everything that matters, in exactly
    # the undamaged result - never in different content, and within the same deadlines
    if entry in ("get", "upload") and ch.chance("damage", 0.2):
        k = ch.choose("damagek", 2600 + len(sent))
        cfg["scratch"] = fresh_dir("c13d")
        dmg = run_case(ch, cfg, False, damage=k)
        rd = dmg.get("res")
        hit = dmg["s2c_sent"] > k
        ctx["damaged_offset"] = k
        ctx["damage_within_stream"] = hit
        ctx["damaged"] = _r(dmg)
        res.stats["server_stream_damaged_in_transit"] += 1 if hit else 0
        if dmg["status"] != "done" or rd is None:
            res.violate(f"C13/call-never-returned/damaged-stream/{entry}",
                        f"damaged stream: the call was still pending when the simulation ran out "
                        f"({dmg['status']})", **ctx)
        else:
            limit = (dmg["t_connected"] if dmg["t_connected"] is not None else dmg["t0"]) + T + 1.0
            if dmg["t_done"] > limit:
                res.violate(f"C13/timeout-not-enforced/damaged-stream/{entry}",
                            f"damaged stream: call ended at {dmg['t_done']:.3f}, limit {limit:.3f}",
                            **ctx)
            rb0 = base.get("res")
            if rd[0] == "resp" and hit and (rb0 is None or rb0[0] != "resp" or rb0[1:4] != rd[1:4]):
                res.violate(f"C13/damaged-stream-accepted/{entry}",
                            "one byte of the server's TLS stream was inverted in transit, yet the "
                            "call returned a response that differs from the undamaged one", **ctx)
            if rd[0] == "exc" and not rd[3]:
                res.violate(f"C13/non-exception-escaped/{rd[1]}/{entry}",
                            f"damaged stream: the call raised {rd[1]}", **ctx)
    rb, rv = base.get("res"), var.get("res")
    if rb and rv and not res.violations:
        nb = rb[:2] + (rb[2:4] if rb[0] == "resp" else ())
        nv = rv[:2] + (rv[2:4] if rv[0] == "resp" else ())
        if end == "rst" and nb[0] == "exc" and nv[0] == "exc":
            nb = nv = ("exc",)   # which error a reset surfaces as is a matter of timing
        if nb != nv:
            res.violate(f"C13/result-depends-on-segmentation/{info['cls']}/{entry}",
                        "baseline and segmented delivery of the same stream gave different "
                        "results", **ctx)

    cls = info["cls"]
    if cls == "bad-charset":
        res.stats["unknown_charset" if info["label"] in UNKNOWN else "nontext_codec"] += 1
    if cls == "over-cap" and prefix > len(info["head"]) + cap:
        res.stats["over_cap"] += 1
    if end == "stall":
        res.stats["stall_timeout"] += 1
    if end == "trickle":
        res.stats["trickling_server"] += 1
    if end == "rst" and prefix > len(info["head"]):
        res.stats["rst_mid_body"] += 1
    if end == "fin" and entry in ("get", "upload"):
        res.stats["fin_without_close_notify"] += 1
    if cls in ("bad-status", "bad-header-utf8", "no-crlf"):
        res.stats["invalid_header"] += 1
    if exp["verdict"] == "resp":
        res.stats["must_succeed_core"] += 1
    if entry in ("get", "upload"):
        res.stats["tls_entry"] += 1
    if entry in ("proto-titan", "upload"):
        res.stats["titan_entry"] += 1
    if info.get("trailing"):
        res.stats["non2x_with_trailing_bytes"] += 1
    res.sim_seconds = base["now"] + var["now"]
    rc = (rv or ("none",))[:2]
    res.signature = hashlib.sha256(repr((cls, end, entry, rc, prefix == n, var["sig"])).encode()
                                   ).hexdigest()[:16]
    res.digest = hashlib.sha256((base["digest"] + var["digest"]).encode()).hexdigest()[:16]
    res.nontrivial = cls not in ("good", "good-non2x") or prefix < n or len(pieces) > 1 or end != "close"
    res.sample = {k: ctx[k] for k in ("entry", "stream_class", "end", "sent_len", "cap", "timeout",
                                      "expectation", "variant")}
    return res


def _r(o):
    r = o.get("res")
    if r is None:
        return None
    if r[0] == "resp":
        b = r[3]
        return ("resp", r[1], (r[2] or "")[:60], type(b).__name__, len(b) if b is not None else None,
                round(o.get("t_done", 0), 3))
    return ("exc", r[1], r[2][:80], round(o.get("t_done", 0), 3))
