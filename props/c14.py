"""C14 - Titan uploads change only the authorised target, exactly as sent.

World: the real FileUploadHandler, called directly (70 %) or behind the real
GeminiServerProtocol on the plaintext wire with a raw peer (30 %), on a
generated upload tree (nested dirs, existing files, symlinks inside->inside /
inside->outside / dangling, a sibling directory whose name extends the upload
directory's name) with the file-fault seam armed.

Oracle: recursive snapshot (path, type, link target, bytes) of the upload
directory AND its surroundings before and after each request.
"""

from __future__ import annotations

import asyncio
import hashlib
import os

from sim import serverwire as sw
from sim.net import DrawnPolicy, WholePolicy, raw_connect
from sim.peers import RawPeer
from sim.runner import RunResult
from sim.storage import FILES
from sim.world import Sim, fresh_dir

PROPERTY = "C14"
LEVEL = "exploration"
TIERS = {"quick": 30000, "thorough": 3000000}
CHUNK = 60
RULE = ("each run builds an upload tree with symlinks and a prefix-sharing sibling, a handler "
        "configuration (max size, token set, media-type list, delete switch) and issues 1-4 Titan "
        "requests whose path (traversal spellings, absolute, through symlinked components, existing "
        "directories, the root), declared size (around the limit), token (absent/valid/wrong/"
        "duplicated), media type and content are drawn, directly or through the protocol with "
        "segmented content, under a fault plan (ENOSPC / EIO after k bytes incl. 0 and size-1, "
        "EACCES on open, failing mkdir / replace). distinct = distinct (path class, permission "
        "vector, fault, status class, diff shape); non-trivial = a fault fired, or the path was not "
        "a plain relative one, or the request was not permitted")
PROBES = ["write_fault_mid_file", "write_fault_at_0", "open_fault", "mkdir_fault", "replace_fault",
          "overwrite_existing", "symlink_to_outside", "symlink_inside", "traversal_spelling",
          "sibling_prefix", "delete_request", "token_wrong", "size_over_limit", "upload_with_limit_zero", "via_protocol", "layout_changed_between_requests", "error_reported_at_close", "request_arrives_as_the_timer_is_due", "half_close_before_all_declared_bytes", "client_left_right_after_upload",
          "must_succeed_core", "fault_on_existing_file", "handler_from_server_config"]
COMPONENTS = {
    "real": ["nauyaca.server.handler.FileUploadHandler", "nauyaca.protocol.request.TitanRequest "
             "(parameter parsing)", "nauyaca.server.protocol (content slicing, wire share)",
             "pathlib / os on a real scratch filesystem"],
    "stub": ["builtins.open / io.open / os.replace / os.rename / os.unlink / os.mkdir fault seam",
             "sockets/selector/clock and raw peer (wire share)"],
}
ASSUMPTIONS = ["new EMPTY directories after a refused or failed request are tolerated (the property "
               "speaks of files)", "duplicated token parameters are three-valued"]
HOST = "srv.sim"

PATHS = [
    # (path, class)
    ("/new.txt", "plain"), ("/a.txt", "plain-existing"), ("/sub/b.txt", "plain-existing"),
    ("/sub/new/deep/file.bin", "plain"), ("/n/x.gmi", "plain"),
    ("/../outside/evil.txt", "traversal"), ("/sub/../../outside/evil.txt", "traversal"),
    ("//etc/passwd-sim", "absolute"), ("/./a.txt", "dot"), ("/sub/../a.txt", "dot"),
    ("/out/x.txt", "symdir-out"), ("/fout", "symfile-out"), ("/link_in/c.txt", "symdir-in"),
    ("/flink", "symfile-in"), ("/dangling", "dangling"), ("/sub", "directory"), ("/", "root"),
    ("/../uploads-evil/x.txt", "sibling"), ("/a.txt/x", "file-as-dir"), ("/%2e%2e/outside/e.txt", "encoded"),
    ("/..", "dotdot"), ("/sub/", "directory"),
    # a sibling with the same stem and another suffix exists (sub/b.tmp), and a *.tmp target
    ("/sub/b.txt", "plain-existing"), ("/data.tmp", "plain-existing"), ("/report.gmi", "plain"),
    # decomposed (NFD) spelling of a name that exists in exactly that spelling
    ("/cafe\u0301.txt", "plain-existing"), ("/nfd\u0308dir/new.txt", "plain"),
    ("/caf\u00e9.txt", "plain"),
]


def build_tree(root):
    U = os.path.join(root, "uploads")
    os.makedirs(os.path.join(U, "sub"))
    os.makedirs(os.path.join(root, "outside"))
    os.makedirs(os.path.join(root, "uploads-evil"))

    def w(p, b):
        with open(os.path.join(root, p), "wb") as f:
            f.write(b)
    w("uploads/a.txt", b"ORIGINAL A\n" * 20)
    w("uploads/sub/b.txt", b"ORIGINAL B\n")
    w("uploads/sub/c.txt", b"ORIGINAL C\n")
    w("outside/secret.txt", b"OUTSIDE SECRET\n")
    w("uploads/sub/b.tmp", b"SIBLING WITH TMP SUFFIX\n")
    w("uploads/data.tmp", b"A TARGET NAMED *.tmp\n" * 10)
    w("uploads/report.tmp", b"UNRELATED report.tmp\n")
    # a user's own files that merely look like the handler's staging files, untouched for years
    for rel in ("uploads/.upload-notes.tmp", "uploads/sub/.upload-2019.tmp"):
        w(rel, b"USER FILE NAMED LIKE A STAGING FILE\n")
        os.utime(os.path.join(root, rel), (0, 0))
    w("uploads/cafe\u0301.txt", b"NFD NAMED FILE\n")
    os.makedirs(os.path.join(U, "nfd\u0308dir"))
    w("uploads-evil/x.txt", b"SIBLING\n")
    os.symlink("sub", os.path.join(U, "link_in"))
    os.symlink("a.txt", os.path.join(U, "flink"))
    os.symlink("../outside", os.path.join(U, "out"))
    os.symlink("../outside/secret.txt", os.path.join(U, "fout"))
    os.symlink("../nowhere/x", os.path.join(U, "dangling"))
    return U


def run_one(ch):
    from nauyaca.protocol.request import TitanRequest
    from nauyaca.server.handler import FileUploadHandler
    res = RunResult()
    root = fresh_dir("c14")
    U = build_tree(root)
    realU = os.path.realpath(U)
    # 0 = "no upload is small enough" (deletes only)
    max_size = ch.pick("max", [1000, 10, 100000, 0], [4, 3, 2, 1])
    tokens = ch.pick("tokens", [None, {"sekrit"}, {"sekrit", "other"}], [3, 4, 1])
    types = ch.pick("types", [None, ["text/plain", "text/gemini"], ["image/png"]], [5, 3, 1])
    delete = bool(ch.choose("delete", 2))
    via_proto = ch.chance("proto", 0.3)
    if ch.chance("from_config", 0.4):
        # handler built the way the server builds it: ServerConfig.get_upload_handler()
        import pathlib
        from nauyaca.server.config import ServerConfig
        docroot = os.path.join(root, "docroot")
        os.makedirs(docroot, exist_ok=True)
        cfg = ServerConfig(document_root=pathlib.Path(docroot), enable_titan=True,
                           titan_upload_dir=pathlib.Path(U), titan_max_upload_size=max_size,
                           titan_allowed_mime_types=types,
                           titan_auth_tokens=sorted(tokens) if tokens else None,
                           titan_enable_delete=delete)
        handler = cfg.get_upload_handler()
        res.stats["handler_from_server_config"] += 1
        if handler is None:
            res.violate("C14/config-built-no-handler",
                        "ServerConfig with Titan enabled produced no upload handler")
            return res
    else:
        handler = FileUploadHandler(U, max_size=max_size, allowed_types=types, auth_tokens=tokens,
                                    enable_delete=delete)
    nreq = 1 + ch.choose("nreq", 4, [4, 3, 2, 1])
    FILES.install()
    sigs = []
    used_paths = []
    try:
        for i in range(nreq):
            pi = ch.choose("path", len(PATHS), [6, 6, 3, 3, 2] + [1] * (len(PATHS) - 5))
            path, pclass = PATHS[pi]
            if i and ch.chance("relayout", 0.12):
                # the layout changes between two requests for the SAME path on the same
                # long-lived handler: a real directory on the way is moved aside and replaced
                # by a symlink that leads out of the upload directory
                cands = [(p_, c_) for p_, c_ in used_paths if p_.count("/") >= 2 and
                         p_.split("/")[1] not in ("", ".", "..") and
                         os.path.isdir(os.path.join(U, p_.split("/")[1])) and
                         not os.path.islink(os.path.join(U, p_.split("/")[1]))]
                if cands:
                    path, pclass = cands[ch.choose("relayout_path", len(cands))]
                    first = os.path.join(U, path.split("/")[1])
                    os.rename(first, first + f".moved{i}")
                    os.symlink("../outside", first)
                    pclass = "dir-replaced-by-symlink-out"
                    res.stats["layout_changed_between_requests"] += 1
            used_paths.append((path, pclass))
            size = ch.biased_size("size", 0, max_size + 20,
                                  [x for x in (0, 1, max_size - 1, max_size, max_size + 1, 50)
                                   if 0 <= x <= max_size + 20])
            content = ch.bytes_("content", size)
            tokv = ch.choose("tok", 5, [2, 5, 2, 1, 1])
            tokstr = ["", ";token=sekrit", ";token=wrong", ";token=wrong;token=sekrit",
                      ";token= sekrit "][tokv]
            mime = ch.pick("mime", ["text/plain", "image/png", "text/gemini", "application/x-evil"])
            line = f"titan://{HOST}{path};size={size};mime={mime}{tokstr}"
            fkind = ch.choose("fault", 8, [8, 3, 1, 1, 1, 1, 1, 1])
            plan = []
            fdesc = None
            if fkind == 1:
                k = ch.pick("fk", [0, 1, max(0, size - 1), size // 2])
                err = ch.pick("ferr", ["ENOSPC", "EIO", "SHORT"])
                plan = [{"op": "write", "kind": err, "after": k}]
                fdesc = f"write-{err}-after-{k}"
            elif fkind == 2:
                plan = [{"op": "open", "kind": ch.pick("oerr", ["EACCES", "EROFS"])}]
                fdesc = "open-" + plan[0]["kind"]
            elif fkind == 3:
                plan = [{"op": "mkdir", "kind": "EACCES"}]
                fdesc = "mkdir-EACCES"
            elif fkind == 4:
                plan = [{"op": "replace", "kind": ch.pick("rerr", ["EACCES", "EIO", "ENOSPC"])}]
                fdesc = "replace-" + plan[0]["kind"]
            elif fkind == 7:
                # a sync of the file or of its directory fails (some network / FUSE file systems)
                plan = [{"op": "fsync", "kind": ch.pick("fserr", ["EIO", "EACCES"])}]
                fdesc = "fsync-" + plan[0]["kind"]
            elif fkind == 6 and size > 0:
                # the error only shows when the buffered tail is flushed (at close)
                k = ch.pick("flk", [0, size // 2])
                plan = [{"op": "flush", "kind": ch.pick("flerr", ["ENOSPC", "EIO"]), "after": k}]
                fdesc = f"flush-{plan[0]['kind']}-after-{k}"
            elif fkind == 5 and size == 0:
                plan = [{"op": "unlink", "kind": "EACCES"}]
                fdesc = "unlink-EACCES"

            before = sw.snapshot(root)
            # expected destination, resolved independently on the tree as it is now
            joined = os.path.join(U, path.lstrip("/"))
            dest = os.path.realpath(joined)
            inside = dest == realU or dest.startswith(realU + os.sep)
            rel_dest = os.path.relpath(dest, root)
            FILES.arm(root, plan)
            status = None
            err = None
            try:
                if via_proto:
                    status = _via_protocol(ch, handler, line, content)
                else:
                    req = TitanRequest.from_line(line)
                    req.content = content
                    loop = asyncio.new_event_loop()
                    try:
                        resp = loop.run_until_complete(handler.handle_upload(req))
                    finally:
                        loop.close()
                    status = resp.status
            except Exception as e:  # noqa
                err = e
            fired = list(FILES.fired)
            FILES.disarm()
            after = sw.snapshot(root)

            # ---- diff --------------------------------------------------------
            changed = {}
            for k in set(before) | set(after):
                if before.get(k) != after.get(k):
                    changed[k] = (before.get(k), after.get(k))
            file_changes = {k: v for k, v in changed.items()
                            if not (v[0] is None and v[1] == ("d",))}
            permitted = (not tokens or tokv in (1, 4) or tokv == 3) and size <= max_size and \
                (types is None or mime in types) and (size > 0 or delete)
            strictly_forbidden = (tokens and tokv in (0, 2)) or size > max_size or \
                (types is not None and mime not in types) or (size == 0 and not delete)
            ctx = dict(request_line=line[:160], size=size, path_class=pclass, via_protocol=via_proto,
                       status=status, error=repr(err)[:200] if err else None, fault=fdesc,
                       fault_fired=fired[:3], tokens_configured=sorted(tokens) if tokens else None,
                       max_size=max_size, allowed_types=types, delete_enabled=delete,
                       expected_destination=rel_dest, destination_inside_upload_dir=inside,
                       file_changes={k: v for k, v in list(file_changes.items())[:6]})
            if err is not None:
                res.violate(f"C14/handler-raised/{type(err).__name__}",
                            "the upload handler raised instead of answering", **ctx)
                continue
            deadline_case = bool(via_proto and _VP.pop("deadline", False))
            ok2x = status is not None and 20 <= status <= 29
            client_left = via_proto and _VP.get("left") and status is None
            outside_touched = [k for k in file_changes
                               if not (k == "uploads" or k.startswith("uploads" + os.sep))]
            if outside_touched:
                res.violate(f"C14/file-outside-upload-dir-changed/{pclass}",
                            f"a file outside the upload directory changed: {outside_touched[:3]}",
                            **ctx)
            if client_left:
                # the client closed right behind its request and saw no answer: whatever the
                # server then did must still be the authorised change, exactly as sent
                res.stats["client_left_right_after_upload"] += 1
                want = ("f", hashlib.sha256(content).hexdigest()[:16], size)
                if file_changes and (strictly_forbidden or not inside):
                    res.violate(f"C14/unauthorised-change-after-client-left/{pclass}",
                                "files changed for a request that is not permitted", **ctx)
                elif file_changes and size > 0 and (set(file_changes) - {rel_dest} or
                                                     after.get(rel_dest) != want):
                    res.violate(f"C14/stored-content-or-location-wrong/{pclass}",
                                "the client left after sending; the only file change may be the "
                                "target holding exactly the declared bytes",
                                want=want, got=after.get(rel_dest), **ctx)
                elif file_changes and size == 0 and (set(file_changes) - {rel_dest} or rel_dest in after):
                    res.violate(f"C14/delete-effect-wrong/{pclass}",
                                "the client left after sending; the only change may be the removal "
                                "of the target", **ctx)
            elif ok2x:
                if strictly_forbidden:
                    why = ("token" if (tokens and tokv in (0, 2)) else "size" if size > max_size
                           else "media-type" if (types is not None and mime not in types) else "delete-disabled")
                    res.violate(f"C14/unauthorised-request-succeeded/{why}",
                                f"success status {status} although the request is not permitted "
                                f"({why})", **ctx)
                if not inside:
                    res.violate(f"C14/success-outside-upload-dir/{pclass}",
                                "success although the path resolves outside the upload directory",
                                **ctx)
                if size > 0:
                    want = ("f", hashlib.sha256(content).hexdigest()[:16], size)
                    if set(file_changes) - {rel_dest} or after.get(rel_dest) != want:
                        res.violate(f"C14/stored-content-or-location-wrong/{pclass}",
                                    "after a successful upload the only file change must be the "
                                    "target holding exactly the declared bytes",
                                    want=want, got=after.get(rel_dest), **ctx)
                else:
                    if set(file_changes) - {rel_dest} or rel_dest in after:
                        res.violate(f"C14/delete-effect-wrong/{pclass}",
                                    "after a successful delete the only change must be the "
                                    "removal of the target", **ctx)
            else:
                if file_changes:
                    fk = (fdesc or "no-fault").split("-after-")[0]
                    res.violate(f"C14/non-success-changed-files/{fk}",
                                f"status {status} but files were created, removed or modified: "
                                f"{sorted(file_changes)[:4]}", **ctx)
                parents_ok = all(before.get(os.path.dirname(rel_dest)[:j], ("d",))[0] == "d"
                                 for j in [i for i, ch_ in enumerate(os.path.dirname(rel_dest) + os.sep)
                                           if ch_ == os.sep])
                dest_ok = before.get(rel_dest, (None,))[0] in (None, "f")
                if permitted and parents_ok and dest_ok and inside and not deadline_case and \
                        pclass in ("plain", "plain-existing") and not fired and \
                        not strictly_forbidden and tokv != 3 and \
                        (size > 0 or before.get(rel_dest, (None,))[0] == "f"):
                    res.violate(f"C14/valid-upload-refused/{pclass}",
                                f"a permitted upload to a plain relative path without any fault "
                                f"was answered with {status}", **ctx)
            if ok2x and permitted and inside and pclass in ("plain", "plain-existing") and not fired:
                res.stats["must_succeed_core"] += 1
            # probes
            for f in fired:
                if f[0] == "write":
                    k = plan[0].get("after", 0)
                    res.stats["write_fault_at_0" if k == 0 else "write_fault_mid_file"] += 1
                    if before.get(rel_dest, (None,))[0] == "f":
                        res.stats["fault_on_existing_file"] += 1
                elif f[0] == "flush":
                    res.stats["error_reported_at_close"] += 1
                elif f[0] == "open":
                    res.stats["open_fault"] += 1
                elif f[0] == "mkdir":
                    res.stats["mkdir_fault"] += 1
                elif f[0] == "replace":
                    res.stats["replace_fault"] += 1
            if ok2x and before.get(rel_dest, (None,))[0] == "f" and size > 0:
                res.stats["overwrite_existing"] += 1
            if pclass in ("symdir-out", "symfile-out"):
                res.stats["symlink_to_outside"] += 1
            if pclass in ("symdir-in", "symfile-in"):
                res.stats["symlink_inside"] += 1
            if pclass in ("traversal", "dot", "dotdot", "encoded", "absolute"):
                res.stats["traversal_spelling"] += 1
            if pclass == "sibling":
                res.stats["sibling_prefix"] += 1
            if size == 0:
                res.stats["delete_request"] += 1
            if tokens and tokv == 2:
                res.stats["token_wrong"] += 1
            if size > max_size:
                res.stats["size_over_limit"] += 1
                if max_size == 0:
                    res.stats["upload_with_limit_zero"] += 1
            if via_proto:
                res.stats["via_protocol"] += 1
                if _VP.pop("short", False):
                    res.stats["half_close_before_all_declared_bytes"] += 1
                elif deadline_case and not _VP.pop("stalled_thread", False):
                    res.stats["request_arrives_as_the_timer_is_due"] += 1
            res.stats["requests"] += 1
            sigs.append((pclass, bool(permitted), fdesc and fdesc.split("-after-")[0],
                         status // 10 if status else None, tuple(sorted(len(k.split(os.sep)) for k in file_changes))))
            if fired or pclass not in ("plain", "plain-existing") or not permitted:
                res.nontrivial = True
    finally:
        FILES.disarm()
        FILES.uninstall()
    res.sim_seconds = 0.0
    res.signature = hashlib.sha256(repr(sigs).encode()).hexdigest()[:16]
    res.digest = res.signature
    res.sample = {"requests": sigs[:4], "max_size": max_size, "via_protocol": via_proto}
    return res


_VP = {}


def _via_protocol(ch, handler, line, content):
    """Send the request through the real protocol state machine (plaintext wire or one of
    the TLS backends); returns the status the peer received (None if it left first)."""
    sim = Sim(ch)
    net = sim.net
    out = {}
    mode = ch.pick("vpmode", ["plain", "stdlib", "pyopenssl"], [3, 1, 3])
    extra = b"TRAILING" if ch.chance("trail", 0.3) else b""
    head = line.encode() + b"\r\n" + content
    flight = ch.choose("vpflight", 6, [5, 2, 2, 1, 1, 1])
    if flight == 5 and (not content or mode == "pyopenssl"):
        flight = 0
    _VP["left"] = flight in (2, 3)
    if flight == 0:
        # one write, cut by the network at drawn places
        script = [("send", head + extra)]
        pol = DrawnPolicy(ch, "c2s", ch.choose("segmode", 3, [2, 2, 1]), latency=0.001,
                          hot=[len(line) + 2, len(line) + 2 + len(content)], dribble_limit=300)
    else:
        # the request ends exactly at a write (= TLS record) boundary and something else
        # follows in the same flight: undeclared bytes, or the client's goodbye
        pol = WholePolicy(0.001)
        if flight == 5:
            # the client half-closes (FIN / close_notify) after only PART of the declared
            # content and keeps reading: nothing may be stored, whatever is answered
            k_ = ch.choose("vpshort", len(content))
            script = [("send", line.encode() + b"\r\n" + content[:k_]), ("fin",) if mode == "plain" else ("close",)]
            _VP["short"] = True
        elif flight == 4:
            # the complete request arrives in the instant the 30 s request timer is due (or a
            # millisecond before / after): answered 20 and stored, or 40 and nothing stored
            script = [("sleep", ch.pick("vpdeadline", [29.998, 29.999, 30.0])), ("send", head + extra)]
        elif flight == 1:
            script = [("send", head), ("send", extra or b"X")]
        elif flight == 2:
            script = [("send", head), ("close",)]
        else:
            script = [("send", head), ("send", extra or b"X"), ("close",)]

    # should the handler ever move its storage calls into a worker thread: that thread stalls
    # for longer than any timeout around it (the pinned tree has no such thread: no effect)
    slow_thread = ch.chance("vpslowthread", 0.1)
    if slow_thread:
        sim.loop.executor_delay = 45.0

    async def main():
        def h(req):
            raise RuntimeError("gemini handler must not be used")
        server = await sw.start_protocol_server(sim, mode, h, None, handler)
        ep = raw_connect(net, HOST, 1965, c2s=pol, s2c=WholePolicy(0.001))
        peer = RawPeer(net, ep, script, tls_ctx=sw.peer_tls_ctx(mode), name="cli",
                       coalesce_first=bool(ch.choose("vpcoalesce", 2)))
        for _ in range(400):
            await asyncio.sleep(0.1)
            if peer.eof_seen() and (peer.finished or not _VP["left"]):
                break
        await asyncio.sleep(60.0 if slow_thread else 1.0)
        peer.drain_final()
        out["rx"] = bytes(peer.rx_plain)
        server.close()
    status = sim.run(main(), horizon=200.0)
    if sim.error is not None:
        raise sim.error
    if status != "done":
        raise RuntimeError(f"C14 wire world ended with status {status}")
    if flight == 5:
        _VP["deadline"] = True      # the request was never complete: no answer is owed a 20
    if flight == 4:
        _VP["deadline"] = True
    if net.stats.get("executor_job_stalled"):
        _VP["deadline"] = True      # a stalled storage thread is a fault: 40 is a correct answer
        _VP["stalled_thread"] = True
    if _VP["left"] and not out["rx"]:
        return None
    _VP["left"] = False
    pw = sw.parse_wire(out["rx"])
    return pw["status"]
