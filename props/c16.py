"""C16 - redirect following is bounded, loop-free and stays on gemini://.

World: client-wire with three scripted TLS hosts serving a generated redirect
graph over up to 8 URLs (chains, cycles, self-loops, cross-host hops, targets
that are relative, other-scheme, empty, oversized, with fragment or user-info),
max_redirects 0-6, TOFU on with certificate swaps on some hops.

Oracle: a graph walk gives per fetch the bound on connections (counted by the
network), the scheme of every request line any server received, the result
class (final response / error / grey), per-hop pin verification, and the
single-connection rule with redirect following disabled.
"""

from __future__ import annotations

import asyncio
import hashlib
import pathlib

from sim import fixtures as fx
from sim.clientwire import ScriptedServer
from sim.runner import RunResult
from sim.storage import SEAM
from sim.tofuworld import load_cert, read_table
from sim.world import Sim, fresh_dir

PROPERTY = "C16"
LEVEL = "exploration"
TIERS = {"quick": 3000, "thorough": 250000}
CHUNK = 40
RULE = ("each run generates a redirect graph over 2-8 URLs on up to three hosts (each node: final "
        "20 response or 30/31 to an absolute gemini URL, or to a relative / other-scheme / empty / "
        "> 1024-byte / fragment / user-info / upper-case-scheme target), draws max_redirects 0-6, "
        "follow_redirects on/off, optional pre-pinned or swapped certificates on some hosts, and "
        "issues 1-3 fetches; results are compared with a walk of the graph. distinct = distinct "
        "(graph shape, max_redirects, result class) signatures; non-trivial = the walk contained "
        "at least one redirect")
PROBES = ["nodes_differ_only_in_the_query", "host_switches_to_an_expired_certificate", "hop_trickles_its_header", "hop_speaks_first_tls12", "slow_hops_sum_exceeds_timeout", "hop_stalls_or_resets_after_its_3x_header", "overlapping_fetches_with_certificate_rotation", "hop_closed_without_header", "redirect_target_host_in_upper_case", "chain_exactly_max", "chain_longer_than_max", "cycle", "self_loop", "cross_host_hop",
          "grey_target", "non_gemini_target", "cert_changed_on_hop", "cert_swapped_on_later_hop", "overlapping_fetches", "sql_fault_during_fetch", "follow_disabled",
          "max_redirects_zero", "final_after_redirects"]
COMPONENTS = {
    "real": ["nauyaca.client.session.GeminiClient (_get_with_redirects, _get_single)",
             "nauyaca.security.tofu", "asyncio sslproto + OpenSSL"],
    "stub": ["sockets/selector/clock/DNS", "scripted TLS servers serving the redirect graph"],
}
ASSUMPTIONS = ["non-gemini / malformed / relative targets are grey: either the 3x is handed back or "
               "an error is raised; only *requesting* them is forbidden"]
HOSTS = ["h0.sim", "h1.sim", "h2.sim"]


def run_one(ch):
    from nauyaca.client.session import GeminiClient
    from nauyaca.security.tofu import CertificateChangedError, TOFUDatabase
    res = RunResult()
    sim = Sim(ch)
    net = sim.net
    scratch = fresh_dir("c16")
    nn = 2 + ch.choose("nnodes", 7)
    nodes = []
    for j in range(nn):
        h = HOSTS[ch.choose("nhost", 3, [3, 2, 1])]
        pth = f"/n{j}"
        if j and nodes[-1]["host"] == h and ch.chance("samepath", 0.2):
            # same host and path as the previous node, another query: a different resource
            pth = nodes[-1]["path"].split("?")[0] + f"?v={j}"
        nodes.append({"host": h, "path": pth, "url": f"gemini://{h}{pth}"})
    for j, nd in enumerate(nodes):
        k = ch.choose("nkind", 13, [6, 24, 1, 1, 1, 1, 1, 1, 1, 1, 3, 2, 1])
        if k == 0:
            nd.update(kind="final")
        elif k == 10:
            # the server takes the request and closes without any header
            nd.update(kind="drop")
        elif k == 12:
            # a hop that dribbles a 3x header, one byte every 2.5 s (the client's timeout is 10 s
            # per hop), and never sends the CRLF: the fetch ends in an error, and it ENDS
            nd.update(kind="drop", trickle=True)
        elif k == 11:
            # ... or closes (cleanly) part-way through a redirect header: no CRLF ever comes,
            # and what did arrive still looks like a gemini URL
            t = ch.choose("cuttarget", nn)
            full = f"3{ch.choose('cutst', 2)} {nodes[t]['url']}"
            nd.update(kind="drop", cut=full[:len(full) - 1 - ch.choose("cutn", 3)])
        elif k == 1:
            t = ch.choose("target", nn)
            style = ch.choose("tstyle", 4, [5, 1, 1, 1])
            tu = nodes[t]["url"]
            if style == 1:
                tu = tu.replace("gemini://" + nodes[t]["host"], "gemini://" + nodes[t]["host"] + ":1965")
            elif style == 3:
                # host names are case-insensitive: the same endpoint, the same pin
                tu = tu.replace("gemini://" + nodes[t]["host"], "gemini://" + nodes[t]["host"].upper())
                nd["spelled"] = True
            nd.update(kind="redirect", target=t, meta=tu, status=ch.pick("rstatus", [30, 31, 30, 31, 32, 37, 39]))
            # what the hop does after its (complete) redirect header: a 3x is complete at the
            # CRLF, whatever the server does with the connection afterwards
            nd["after"] = ch.pick("rafter", ["close", "stall", "rst"], [8, 1, 1])
        else:
            grey = {
                2: "/relative/path", 3: "n1", 4: "http://h0.sim/x", 5: "",
                6: "gemini://h0.sim/" + "a" * 1100, 7: "gemini://h0.sim/n0#frag",
                8: "gemini://user@h0.sim/n0", 9: "GEMINI://h0.sim/n0",
            }[k]
            if k == 4 and ch.chance("altscheme", 0.5):
                grey = ch.pick("scheme", ["titan://h0.sim/n0;size=0", "gopher://h0.sim/1",
                                          "https://h0.sim/", "//h0.sim/n0", "mailto:x@y"])
            nd.update(kind="grey", meta=grey, status=30, greykind=k)
    # one host may be a TLS 1.2 server that answers before it has seen any request: response
    # and close travel in the flight of its Finished (all its paths answer the same 20)
    speak_host = HOSTS[ch.choose("speakhost", 3)] if ch.chance("speakfirst", 0.15) else None
    if speak_host is not None:
        for nd in nodes:
            if nd["host"] == speak_host:
                for k_ in ("target", "meta", "status", "after", "cut", "greykind", "spelled"):
                    nd.pop(k_, None)
                nd.update(kind="final", spoke=True)
    # every hop may take its time (well within the client's 10 s timeout per hop)
    hop_delay = ch.pick("hopdelay", [0.0, 0.0, 4.0])
    max_r = ch.choose("max", 7)
    # overlapping fetches on ONE client (staggered starts, servers answer after a
    # short delay so that a fetch is between two hops when the next one starts)
    concurrent = ch.chance("concurrent", 0.3)
    certs = {h: "rsa1" for h in HOSTS}
    certs["h1.sim"] = "ed1"
    certs["h2.sim"] = "rsa2"
    bad_host = None
    if not concurrent and ch.chance("badpin", 0.25):
        bad_host = HOSTS[ch.choose("badhost", 3)]
    # some hosts switch to another certificate after their n-th connection
    swap_after = {}
    for h in HOSTS:
        if ch.chance("swap", 0.2):
            swap_after[h] = 1 + ch.choose("swapn", 3)
    # overlapping fetches AND a host that changes its certificate: the sequential pin model
    # does not apply; what is demanded instead is stated below (one certificate per host)
    rotating = concurrent and bool(swap_after)
    # the certificate a host switches to: another valid one, or one whose validity is over
    swap_cert = ch.pick("swapcert", ["rsa3", "expired1"], [3, 1]) if swap_after else "rsa3"
    if swap_cert == "expired1":
        res.stats["host_switches_to_an_expired_certificate"] += 1
    reqlog = []      # every request line any server received

    def behaviour(host):
        def beh(idx, server):
            if host == speak_host:
                return {"script": [("call", lambda peer: peer.send_app(
                    f"20 text/plain\r\nspoke first on {host}\n".encode())), ("close",)]}
            def respond(peer):
                if b"\r\n" not in peer.rx_plain:
                    return        # the client went away without sending a request
                line = bytes(peer.rx_plain).split(b"\r\n")[0]
                reqlog.append((host, line))
                try:
                    txt = line.decode()
                except Exception:
                    txt = ""
                path = "/" + txt.split("/", 3)[3] if txt.count("/") >= 3 else "/"
                nd = next((n for n in nodes if n["host"] == host and n["path"] == path), None)
                if nd is None:
                    peer.send_app(b"51 no such node\r\n")
                elif nd["kind"] == "drop":
                    if nd.get("cut"):
                        peer.send_app(nd["cut"].encode())
                    if nd.get("trickle"):
                        peer.c16_after = "trickle"
                elif nd["kind"] == "final":
                    peer.send_app(f"20 text/plain\r\nnode {nd['path']} on {host}\n".encode())
                else:
                    peer.send_app(f"{nd['status']} {nd['meta']}\r\n".encode())
                    peer.c16_after = nd.get("after")

            def after(peer):
                how = getattr(peer, "c16_after", None)
                if how == "trickle":
                    peer.waiting = "sleep"
                    text = b"31 gemini://h0.sim/" + b"t" * 300

                    def drip(i=0):
                        if peer.closed or peer.ep.tx.dead or i >= len(text):
                            return
                        peer.send_app(text[i:i + 1])
                        net.after(2.5, lambda: drip(i + 1))
                    drip()
                elif how == "stall":
                    peer.stalled = True
                    peer.waiting = "sleep"          # never woken: header sent, then silence
                elif how == "rst":
                    peer.waiting = "sleep"

                    def do_rst():
                        peer.outq.clear()
                        peer.closed = True
                        peer.ep.rst()
                    net.after(0.005, do_rst)
            if concurrent:
                return {"script": [("wait_line",), ("sleep", 0.02), ("call", respond), ("call", after),
                                   ("close",)]}
            if hop_delay:
                return {"script": [("wait_line",), ("sleep", hop_delay), ("call", respond), ("call", after),
                                   ("close",)]}
            return {"script": [("wait_line",), ("call", respond), ("call", after), ("close",)]}
        return beh
    servers = {h: ScriptedServer(sim, h, 1965, certs[h], behaviour(h)) for h in HOSTS}
    if speak_host is not None:
        servers[speak_host].tls12 = True
    for h, n_ in swap_after.items():
        servers[h].cert_queue = [certs[h]] * n_
        servers[h].cert = swap_cert
    pins = {}                 # model of the TOFU store: host -> fixture name
    conn_count = {h: 0 for h in HOSTS}

    def presented_next(h):
        n_ = swap_after.get(h)
        return certs[h] if (n_ is None or conn_count[h] < n_) else swap_cert
    fetches = []
    nf = 1 + ch.choose("nfetch", 3, [5, 3, 2])
    if concurrent:
        nf = 2 + ch.choose("nconc", 2)
    for _ in range(nf):
        fetches.append({"start": ch.choose("start", nn), "follow": not ch.chance("nofollow", 0.15),
                        "delay": ch.pick("stagger", [0.0, 0.01, 0.03, 0.05]) if concurrent else 0.0})
    out = []
    out_total = {}

    async def main():
        db_path = pathlib.Path(scratch, "tofu.db")
        client = GeminiClient(timeout=10.0, max_redirects=max_r, tofu_db_path=db_path)
        if bad_host is not None:
            # the store pins a different certificate for this host than it serves
            client.tofu_db.trust(bad_host, 1965, load_cert("rsa4"))
        if concurrent:
            n0 = sum(len(s.conns) for s in servers.values())

            async def one(f):
                if f["delay"]:
                    await asyncio.sleep(f["delay"])
                try:
                    r = await client.get(nodes[f["start"]]["url"], follow_redirects=f["follow"])
                    return ("resp", r.status, r.meta, r.body)
                except CertificateChangedError as e:
                    return ("changed", str(e)[:80])
                except Exception as e:  # noqa
                    return ("err", type(e).__name__, str(e)[:120])
            gots = await asyncio.gather(*[one(f) for f in fetches])
            total = sum(len(s.conns) for s in servers.values()) - n0
            counts = {h: len(s.conns) for h, s in servers.items()}
            for f, got in zip(fetches, gots):
                out.append((f, got, None, list(reqlog), counts))
            out_total["n"] = total
            return
        for f in fetches:
            n0 = sum(len(s.conns) for s in servers.values())
            r0 = len(reqlog)
            # a storage fault at a drawn SQL tick of this fetch (pin lookup / pin write)
            SEAM.fired = None
            if ch.chance("sqlfault", 0.12):
                SEAM.fault_at = SEAM.tick + 1 + ch.choose("sqltick", 6)
                SEAM.fault_kind = "error:database is locked"
            task = asyncio.ensure_future(client.get(nodes[f["start"]]["url"], follow_redirects=f["follow"]))
            await asyncio.wait({task}, timeout=400.0)      # harness guard, far above any legitimate fetch
            if not task.done():
                task.cancel()
                got = ("hang",)
            else:
                try:
                    r = task.result()
                    got = ("resp", r.status, r.meta, r.body)
                except CertificateChangedError as e:
                    got = ("changed", str(e)[:80])
                except BaseException as e:  # noqa
                    got = ("err", type(e).__name__, str(e)[:120])
            SEAM.fault_at = None
            f["sqlfault"] = SEAM.fired is not None
            f["pins_after"] = {k[0]: v for k, v in read_table(str(db_path)).items()}
            out.append((f, got, sum(len(s.conns) for s in servers.values()) - n0, reqlog[r0:],
                        {h: len(s.conns) for h, s in servers.items()}))

    status = sim.run(main(), horizon=2000.0, max_iterations=600000)
    if sim.error is not None:
        raise sim.error
    if status != "done":
        raise RuntimeError(f"C16 world ended with status {status}")

    st = {}
    sigparts = []
    any_redirect = False
    prev_counts = {h: 0 for h in HOSTS}
    group_limit_acc = []
    for f, got, nconn, reqs, counts_after in out:
        # connections really made so far (differently spelled loops make the client
        # connect more often than the node-identity walk below assumes)
        conn_count.update(prev_counts)
        before_counts = dict(prev_counts)
        prev_counts = counts_after
        # ---- model walk --------------------------------------------------
        cur = f["start"]
        seen = []
        k = 0             # redirects followed so far
        verdict = None    # ('final', node) | ('error',) | ('grey', node) | ('changed', host) | ('3x', node)
        while True:
            nd = nodes[cur]
            h_ = nd["host"]
            pres = presented_next(h_)
            conn_count[h_] += 1
            if bad_host is not None and h_ == bad_host:
                verdict = ("changed", h_, k)
                break
            if pins.get(h_) is None:
                pins[h_] = pres
            elif pins[h_] != pres:
                st["cert_swapped_on_later_hop"] = 1
                verdict = ("changed", h_, k)
                break
            if not f["follow"]:
                verdict = ("final", cur, k) if nd["kind"] == "final" else \
                    ("drop", cur, k) if nd["kind"] == "drop" else ("3x", cur, k)
                break
            if nd["kind"] == "final":
                verdict = ("final", cur, k)
                break
            if nd["kind"] == "grey":
                verdict = ("grey", cur, k)
                break
            if nd["kind"] == "drop":
                if nd.get("trickle"):
                    st["hop_trickles_its_header"] = 1
                verdict = ("drop", cur, k)
                break
            # absolute gemini redirect
            if k >= max_r:
                verdict = ("error", "too-long", k)
                break
            seen.append(cur)
            nxt = nd["target"]
            if nxt in seen or nxt == cur:
                verdict = ("error", "loop", k)
                st["cycle"] = 1
                if nxt == cur:
                    st["self_loop"] = 1
                break
            if nodes[nxt]["host"] != nd["host"]:
                st["cross_host_hop"] = 1
            if nd.get("after") in ("stall", "rst"):
                st["hop_stalls_or_resets_after_its_3x_header"] = 1
            if nd.get("spelled"):
                st["redirect_target_host_in_upper_case"] = 1
            if "?" in nodes[nxt]["path"] or "?" in nd["path"]:
                st["nodes_differ_only_in_the_query"] = 1
            k += 1
            cur = nxt
        if k:
            any_redirect = True
        ctx = dict(start=nodes[f["start"]]["url"], follow=f["follow"], max_redirects=max_r,
                   model=verdict, got=got[:3], connections=nconn,
                   request_lines=[r[1][:80] for r in reqs],
                   graph=[(n["url"], n["kind"], n.get("meta", "")[:60]) for n in nodes],
                   pinned_wrong_host=bad_host, cert_swap_after_n_connections=swap_after)
        if rotating:
            group_limit_acc.append((max_r + 1) if f["follow"] else 1)
            sigparts.append(("rotating", got[0]))
            continue
        if f.get("sqlfault"):
            # under a storage fault only the safety rule is demanded: a hop whose
            # certificate differs from its pin never yields a response
            st["sql_fault_during_fetch"] = 1
            if verdict[0] == "changed" and got[0] == "resp":
                res.violate("C16/hop-certificate-not-verified",
                            "storage fault during the fetch: a hop whose certificate differs from "
                            "its pin was accepted and a response returned", **ctx)
            # continue from the real pin store
            fpmap = {fx.fp(c): c for c in list(certs.values()) + ["rsa3", "rsa4", "expired1"]}
            pins.clear()
            for h_, v_ in f["pins_after"].items():
                pins[h_] = fpmap.get(v_, v_)
            continue
        # ---- universal rules --------------------------------------------
        if got[0] == "hang":
            res.violate("C16/fetch-never-ended",
                        "the fetch was still running 400 s after it started (client timeout 10 s per "
                        "hop, at most max_redirects + 1 hops)", **ctx)
            continue
        limit = (max_r + 1) if f["follow"] else 1
        group_limit_acc.append(limit)
        if nconn is not None and nconn > limit:
            res.violate("C16/too-many-connections",
                        f"{nconn} connections opened, bound is max_redirects+1 = {limit}", **ctx)
        for host, line in reqs:
            if not line.startswith(b"gemini://"):
                res.violate("C16/non-gemini-url-requested",
                            f"a server received the request line {line[:80]!r}", **ctx)
        if got[0] == "resp" and 30 <= got[1] <= 39 and f["follow"] and verdict[0] in ("error", "final"):
            res.violate(f"C16/redirect-returned-as-final/{verdict[1] if verdict[0] == 'error' else 'final'}",
                        "a 3x response was returned to the caller as if it were final content "
                        "although the chain/loop rules require following or an error", **ctx)
        # ---- verdict-specific -------------------------------------------
        v = verdict[0]
        if v == "final":
            nd = nodes[verdict[1]]
            want = f"node {nd['path']} on {nd['host']}\n"
            if nd.get("spoke"):
                want = f"spoke first on {nd['host']}\n"
                st["hop_speaks_first_tls12"] = 1
            if got[0] != "resp" or got[1] != 20 or got[3] != want:
                key = "chain-within-limit-not-followed" if verdict[2] else "plain-fetch-failed"
                if verdict[2] == max_r and max_r > 0:
                    key = "chain-of-exactly-max-redirects-not-followed"
                if max_r == 0 and verdict[2] == 0:
                    key = "max-redirects-zero-fails"
                res.violate(f"C16/{key}",
                            f"a loop-free chain of {verdict[2]} gemini redirects (max_redirects="
                            f"{max_r}) must end in the final response", **ctx)
            elif verdict[2]:
                st["final_after_redirects"] = 1
            if verdict[2] == max_r and max_r > 0:
                st["chain_exactly_max"] = 1
            if f["follow"] and nconn is not None and nconn != verdict[2] + 1 and got[0] == "resp":
                res.violate("C16/connection-count-mismatch",
                            f"{nconn} connections for a chain of {verdict[2]} redirects", **ctx)
        elif v == "error":
            if got[0] == "resp":
                res.violate(f"C16/{verdict[1]}-not-reported",
                            f"a {'redirect loop' if verdict[1] == 'loop' else 'chain longer than max_redirects'} "
                            f"must be reported as an error", **ctx)
            if verdict[1] == "too-long":
                st["chain_longer_than_max"] = 1
        elif v == "3x":
            nd = nodes[verdict[1]]
            st["follow_disabled"] = 1
            if got[0] != "resp" or got[1] != nd["status"] or got[2] != nd["meta"]:
                if nd["kind"] == "redirect" or got[0] == "resp":
                    res.violate("C16/follow-disabled-not-returned-unchanged",
                                "with follow_redirects=False the 3x response must be returned "
                                "unchanged after exactly one connection", **ctx)
            if nconn is not None and nconn != 1:
                res.violate("C16/follow-disabled-connection-count",
                            f"{nconn} connections with follow_redirects=False", **ctx)
        elif v == "drop":
            st["hop_closed_without_header"] = 1
            if got[0] == "resp":
                res.violate("C16/response-from-nowhere",
                            "the last hop closed without sending a header, yet a response was "
                            "returned", **ctx)
        elif v == "grey":
            st["grey_target"] = 1
            nd = nodes[verdict[1]]
            if not nd["meta"].startswith("gemini://"):
                st["non_gemini_target"] = 1
            if nd.get("greykind") == 4 and verdict[2] <= max_r:
                # an absolute URL of another scheme cannot be followed: that 3x is the final
                # response of a chain that stayed within the limit
                # (a dedicated "cannot follow this scheme" error would be a legitimate answer too;
                # what is wrong is another response, or blaming a loop / the redirect limit)
                misreported = got[0] == "err" and any(w_ in (got[2] or "").lower() for w_ in
                                                      ("maximum redirect", "too many redirect", "loop"))
                if (got[0] == "resp" and (got[1] != nd["status"] or got[2] != nd["meta"])) or misreported:
                    res.violate("C16/unfollowable-redirect-not-returned",
                                f"after {verdict[2]} gemini redirects (max_redirects={max_r}) the chain "
                                f"ends in a 3x to a non-gemini URL: that 3x is the final response (or a clear "
                                f"'cannot follow' error) - not another response, not a loop / limit error",
                                **ctx)
        elif v == "changed":
            st["cert_changed_on_hop"] = 1
            if got[0] == "resp":
                res.violate("C16/hop-certificate-not-verified",
                            f"hop {verdict[2]} lands on {verdict[1]} whose certificate differs from "
                            f"its pin, yet a response was returned", **ctx)
            elif got[0] != "changed" and verdict[2] <= max_r:
                res.violate("C16/hop-certificate-wrong-error",
                            "certificate mismatch on a hop did not raise CertificateChangedError",
                            **ctx)
        # hosts the client really contacted during this fetch although the walk above
        # did not go there (e.g. it followed an over-long or oddly spelled gemini
        # target): their first connection pinned what was presented then
        for h_ in HOSTS:
            if counts_after[h_] > before_counts[h_] and pins.get(h_) is None:
                n_ = swap_after.get(h_)
                pins[h_] = certs[h_] if (n_ is None or before_counts[h_] < n_) else swap_cert
        if max_r == 0:
            st["max_redirects_zero"] = 1
        if hop_delay and not concurrent and verdict[0] == "final" and verdict[2] >= 2:
            st["slow_hops_sum_exceeds_timeout"] = 1
        sigparts.append((v, verdict[2] if len(verdict) > 2 else 0, got[0]))

    if rotating:
        # every hop is verified against the pin before the request goes out, and pins never
        # change during these runs: so all connections of one host on which the server was
        # SENT a request presented one and the same certificate
        st["overlapping_fetches_with_certificate_rotation"] = 1
        for h, srv in servers.items():
            accepted = sorted({p.cert_presented for p in srv.conns if b"\r\n" in bytes(p.rx_plain)})
            if len(accepted) > 1:
                res.violate("C16/hop-certificate-not-verified",
                            f"overlapping fetches: {h} was sent requests on connections presenting "
                            f"different certificates {accepted} - at most one of them can match the pin",
                            max_redirects=max_r, swap_after=swap_after,
                            fetches=[(nodes[f["start"]]["url"], f["follow"], g[:2]) for f, g, *_ in out],
                            graph=[(n["url"], n["kind"], n.get("meta", "")[:60]) for n in nodes])
    if concurrent:
        st["overlapping_fetches"] = 1
        if out_total.get("n", 0) > sum(group_limit_acc):
            res.violate("C16/too-many-connections",
                        f"{out_total['n']} connections for {len(out)} overlapping fetches, the sum of "
                        f"their bounds is {sum(group_limit_acc)}", max_redirects=max_r,
                        fetches=[(nodes[f["start"]]["url"], f["follow"]) for f, *_ in out],
                        graph=[(n["url"], n["kind"], n.get("meta", "")[:60]) for n in nodes])
    for k_ in st:
        res.stats[k_] += 1
    res.stats["fetches"] += len(out)
    res.sim_seconds = net.now
    res.signature = hashlib.sha256(repr(([(n["kind"], n.get("target")) for n in nodes], max_r,
                                         sigparts)).encode()).hexdigest()[:16]
    res.digest = sim.digest()
    res.nontrivial = any_redirect
    res.sample = {"max_redirects": max_r,
                  "graph": [(n["url"], n["kind"], n.get("meta", "")[:40]) for n in nodes][:8],
                  "fetches": [(nodes[f["start"]]["url"], f["follow"], g[:2]) for f, g, _, _, _ in out]}
    return res
