"""C18 - the reverse proxy relays responses verbatim and contains upstream faults.

World: proxy-chain.  Scripted downstream raw peer -> the real server protocol
with a real ProxyHandler (bare protocol in plaintext mode, or the whole
start_server() with a proxy location on either TLS backend) -> the real
GeminiClient inside the proxy -> scripted upstream TLS server (plus a decoy
listener that must never be contacted).

Oracle: the downstream peer, if still connected, receives exactly one
well-formed response which is either the upstream's status, meta and body
bytes unchanged (mandatory for a complete valid response under the cap that
was closed cleanly) or status 43 (mandatory for refuse / reset / stall past the
timeout / malformed / oversized / close inside the header), within the bound;
the upstream saw exactly one connection per request.
"""

from __future__ import annotations

import asyncio
import hashlib
import pathlib

from sim import fixtures as fx
from sim import serverwire as sw
from sim.clientwire import ScriptedServer
from sim.net import DrawnPolicy, WholePolicy, raw_connect
from sim.peers import RawPeer
from sim.runner import RunResult
from sim.world import Sim, fresh_dir

PROPERTY = "C18"
LEVEL = "exploration"
TIERS = {"quick": 4000, "thorough": 300000}
CHUNK = 50
RULE = ("each run draws an upstream behaviour - a complete response (every status 10-69, metas of "
        "all kinds, text bodies in UTF-8 / latin-1 / utf-16 / shift_jis / cp1252 with bytes that "
        "differ under UTF-8, binary bodies, sizes up to and beyond the per-run cap, redirects) or a "
        "fault (refused, black-holed connect, plaintext instead of TLS, close before any byte, "
        "close inside the header, garbage header, RST inside the body, stall at each stage, unclean "
        "end after a complete response) - a location timeout of 1-30 s, a proxy assembly (bare "
        "protocol or start_server on either TLS backend), a segmentation of the upstream stream "
        "and a downstream peer that waits or leaves early. distinct = distinct (behaviour, status "
        "class, charset, assembly, outcome) signatures; non-trivial = a fault or a non-UTF-8 / "
        "binary / redirect response was relayed")
PROBES = ["upstream_failed_several_times_before_the_request", "upstream_certificate_renewed_between_requests", "crowd_left_before_the_request", "trickling_upstream", "non_utf8_text_relayed", "binary_relayed", "redirect_relayed", "refused", "blackhole",
          "tls_failure", "close_before_header", "close_inside_header", "garbage_header",
          "rst_in_body", "stall_timeout", "oversized", "downstream_left_early",
          "start_server_assembly", "every_status_class", "concurrent_requests_through_proxy"]
COMPONENTS = {
    "real": ["nauyaca.server.proxy.ProxyHandler", "nauyaca.client.session/protocol inside the proxy",
             "nauyaca.server.protocol (+ tls_protocol / start_server / router for the TLS share)",
             "asyncio sslproto + OpenSSL on the upstream leg"],
    "stub": ["sockets/selector/clock/DNS", "scripted downstream peer", "scripted upstream and decoy"],
}
ASSUMPTIONS = ["d = 1 s virtual slack", "an unclean end (FIN without close_notify) after a complete "
               "response is three-valued", "upstream headers outside the strict grammar "
               "(no space after status, CR/LF inside meta) only need a well-formed answer"]
PROXY = "proxy.sim"
UP = "up.sim"

TEXTS = [("utf-8", "héllo wörld ✓\n"), ("iso-8859-1", "café crème £\n"), ("utf-16", "héllo ☃\n"),
         ("shift_jis", "日本語テキスト\n"), ("cp1252", "smart “quotes” €\n"), ("koi8-r", "привет\n"),
         ("utf-16-be", "big endian ☃\n"), ("utf-8-sig", "bom text\n")]


def gen_upstream(ch, cap):
    b = ch.choose("beh", 15, [12, 2, 2, 2, 2, 2, 2, 2, 3, 2, 2, 3, 2, 2, 1])
    info = {"beh": b, "must": None, "stream": b"", "end": "close", "name": None}
    if b == 0 or b == 11 or b == 12:
        kind = ch.choose("rkind", 5, [4, 3, 3, 2, 2]) if b == 0 else (3 if b == 11 else 0)
        if kind == 0:       # text in a declared charset
            label, text = TEXTS[ch.choose("charset", len(TEXTS))]
            body = (text * (1 + ch.choose("rep", 40))).encode(label)
            q = ch.pick("cq", ["%s", '"%s"', "%s "])
            meta = f"text/{ch.pick('tsub', ['plain', 'gemini'])}; charset=" + (q % label)
            mv = ch.choose("metaform", 4, [6, 1, 1, 1])
            if mv == 1:
                meta = ""                          # no media type at all
            elif mv == 2:
                meta = "; charset=" + label        # parameters only
            elif mv == 3:
                meta = "TEXT/Plain;charset=" + label.upper()
            head = f"20 {meta}\r\n".encode()
            info["charset"] = label
            info["name"] = "text/" + label
        elif kind == 1:     # binary
            body = ch.bytes_("bin", ch.biased_size("blen", 0, min(cap, 50000), [0, 1, 16384]))
            if ch.chance("atcap", 0.15):
                # exactly at / just below the client's cap: still a complete valid response
                body = b"k" * (cap - ch.pick("belowcap", [0, 1, 16, 29, 64]))
            head = ch.pick("binhead", [b"20 application/octet-stream\r\n", b"20 \r\n",
                                       b"20 image/png\r\n", b"20 ;x=y\r\n"], [5, 2, 2, 1])
            info["name"] = "binary"
        elif kind == 2:     # every status class, no body
            st = ch.pick("st", [10, 11, 30, 31, 40, 41, 42, 43, 44, 50, 51, 52, 53, 59, 60, 61, 62,
                                19, 39, 49, 69, 25])
            meta = ch.pick("meta", ["prompt?", "gemini://elsewhere.sim/x", "an error", "ünï ✓", "",
                                    "m" * 1000, "vt\x0bff\x0cfs\x1cgs\x1drs\x1e end", "nel\u0085ls\u2028ps\u2029",
                                    "trailing separator\u2028", "tab\there  two spaces "])
            head = f"{st} {meta}\r\n".encode()
            body = b"text for 2x\n" if 20 <= st <= 29 else b""
            info["name"] = f"status-{st // 10}x"
        elif kind == 3:     # upstream redirect
            head = f"{ch.pick('rst', [30, 31])} gemini://{UP}/other\r\n".encode()
            body = b""
            info["name"] = "redirect"
        else:               # text without charset (utf-8), larger
            body = ("line ✓\n" * ch.biased_size("tl", 0, 4000, [0, 1, 2000])).encode()
            head = b"20 text/gemini\r\n"
            info["name"] = "text/default"
        info["stream"] = head + body
        info["must"] = "verbatim"
        if len(body) > cap:
            info["must"] = "43"
            info["name"] = "oversized"
        if b == 12 and info["must"] == "verbatim":   # complete response, unclean end
            info["end"] = ch.pick("unclean", ["fin", "rst"])
            info["must"] = None
            info["name"] += "+unclean-end"
    elif b == 1:
        info.update(name="refused", must="43")
    elif b == 2:
        info.update(name="blackhole", must="43")
    elif b == 3:
        info.update(name="plaintext-upstream", must="43", stream=b"20 text/plain\r\nnot tls\n")
    elif b == 4:
        info.update(name="close-before-any-byte", must="43", stream=b"",
                    end=ch.pick("cbend", ["close", "fin", "rst"]))
    elif b == 5:
        full = b"20 text/plain; charset=utf-8\r\n"
        k = 1 + ch.choose("hk", len(full) - 2)
        info.update(name="close-inside-header", must="43", stream=full[:k],
                    end=ch.pick("chend", ["close", "fin", "rst"]))
    elif b == 6:
        g = ch.pick("garbage", [b"XX nonsense\r\n", b"200 three\r\n", b"2 one\r\n", b"99 out\r\n",
                                b"20 \xff\xfe\r\n", b"\r\n", b"hello world\r\n", b"05 low\r\n",
                                # long ones: whatever text the proxy builds from them stays a
                                # well-formed 43
                                b"<html>" + b"w" * 1000 + b"\r\n", "\u00fc".encode() * 600 + b"\r\n",
                                b"9" * 2000 + b" big\r\n"])
        info.update(name="garbage-header", must="43", stream=g + b"body")
    elif b == 7:
        body = b"x" * (200 + ch.choose("rb", 20000))
        info.update(name="rst-in-body", must="43", stream=b"20 application/octet-stream\r\n" + body,
                    end="rst")
    elif b == 8:
        stage = ch.choose("stage", 4)
        full = b"20 text/plain\r\n" + b"partial body " * 20
        cut = [0, 7, 15, len(full)][stage]
        info.update(name=f"stall-stage{stage}", must="43", stream=full[:cut], end="stall",
                    stage=stage)
        if stage == 0 and ch.chance("stall_hs", 0.3):
            info["stall_handshake"] = True
    elif b == 14:
        # the longest legal headers: a meta of up to 1024 bytes (the status and CRLF come on top)
        n_ = ch.pick("longmeta", [1019, 1020, 1023, 1024])
        st_ = ch.pick("longst", [20, 51, 30, 10])
        meta = ("text/plain; note=" if st_ == 20 else "gemini://x.sim/" if st_ == 30 else "") 
        meta = meta + "m" * (n_ - len(meta))
        info.update(name="long-meta", must="verbatim",
                    stream=f"{st_} {meta}\r\n".encode() + (b"body\n" if st_ == 20 else b""))
    elif b == 13:
        # never finishes, but keeps sending a byte at intervals shorter than the timeout
        stage = ch.choose("tstage", 2)
        full = b"20 text/plain\r\n" + b"partial body " * 3
        info.update(name=f"trickle-stage{stage}", must="43", stream=full[:[7, len(full)][stage]],
                    end="stall", trickle=True)
    elif b == 9:
        info.update(name="oversized", must="43",
                    stream=b"20 application/octet-stream\r\n" + b"z" * (cap + 1 + ch.choose("ov", 3000)))
    else:   # b == 10: grey headers that only need a well-formed answer
        g = ch.pick("greyh", [b"20\r\n", b"20 text/plain\nX: y\r\n", b"51 a\rb\r\n",
                              b"20 " + b"m" * 1100 + b"\r\n"])
        info.update(name="grey-header", stream=g + b"grey body\n")
    return info


def strict_header(stream):
    i = stream.find(b"\r\n")
    if i < 0:
        return None
    h = stream[:i]
    if len(h) < 3 or not h[:2].isdigit() or h[2:3] != b" ":
        return None
    st = int(h[:2])
    if not 10 <= st <= 69:
        return None
    meta = h[3:]
    try:
        meta.decode("utf-8")
    except UnicodeDecodeError:
        return None
    if b"\r" in meta or b"\n" in meta or len(meta) > 1024:
        return None
    return st, meta, stream[i + 2:]


def run_one(ch):
    from nauyaca.client import protocol as cproto
    res = RunResult()
    sim = Sim(ch)
    net = sim.net
    cap = ch.pick("cap", [1 << 20, 8192, 65536])
    T = ch.pick("timeout", [5.0, 1.0, 30.0, 12.0])
    up = gen_upstream(ch, cap)
    assembly = ch.choose("assembly", 3, [8, 1, 1])     # bare/plain, start_server stdlib, pyopenssl
    mode = ["plain", "stdlib", "pyopenssl"][assembly]
    up_port = ch.pick("upport", [1965, 1970])
    leave = ch.pick("leave", [None, 0.002, 0.5], [8, 1, 1])
    segmode = ch.choose("segmode", 3, [2, 2, 1])
    scratch = fresh_dir("c18")
    stream = up["stream"]
    # upstream script
    pieces = []
    n = len(stream)
    cuts = set()
    if n >= 2:
        for _ in range(ch.choose("npieces", 3)):
            cuts.add(1 + ch.choose("pcut", n - 1))
    edges = [0] + sorted(cuts) + [n]
    for a, b_ in zip(edges, edges[1:]):
        if b_ > a:
            pieces.append((ch.pick("pdelay", [0.0, 0.01, 0.2]) if a else 0.0, stream[a:b_]))
    marks = {}
    script = [("wait_line",)] if ch.choose("trigger", 4) else []
    if up["beh"] == 3 and script:
        # plaintext upstream: what arrives is a TLS ClientHello full of random bytes -
        # never interpret it (a chance CRLF in it would make the run irreproducible)
        script = [("wait_bytes", 100)]
    for d, c in pieces:
        if d:
            script.append(("sleep", d))
        script.append(("send", c))
    script.append(("call", lambda p: marks.setdefault("t_end", net.now)))
    if up.get("trickle"):
        for _ in range(24):
            script += [("sleep", T / 4.0), ("send", b"x")]
    script.append({"close": ("close",), "fin": ("fin",), "rst": ("rst",), "stall": ("stall",)}[up["end"]])
    # concurrent "noise" requests through the same proxy (one shared client inside it)
    noise_n = 0
    mass_leave = False
    warmup = False
    bad_patch = False
    if up["beh"] not in (1, 2, 3) and not up.get("stall_handshake") and script[:1] == [("wait_line",)] \
            and ch.chance("noise", 0.3):
        noise_n = 1 + ch.choose("noisen", 3)
        # ... or a crowd of clients that give up while their (slow) upstream fetch is pending,
        # before the judged request arrives
        mass_leave = ch.chance("mass_leave", 0.15)
        # ... or a single earlier request, after which the upstream renews its certificate:
        # the proxy relays, it does not pin
        warmup = (not mass_leave) and ch.chance("warmup", 0.25)
        if warmup:
            noise_n = 1
            res.stats["upstream_certificate_renewed_between_requests"] += 1
        if mass_leave:
            noise_n = 16 + ch.choose("crowd", 6)
            res.stats["crowd_left_before_the_request"] += 1
        # ... or a bad patch of the upstream: several earlier requests in a row fail there
        # (reset / closed before any header), then it is healthy again for the judged request
        bad_patch = (not mass_leave) and (not warmup) and ch.chance("bad_patch", 0.2)
        if bad_patch:
            noise_n = 3 + ch.choose("badn", 4)
            res.stats["upstream_failed_several_times_before_the_request"] += 1
        main_tail = script[1:]

        def dispatch(peer):
            line = bytes(peer.rx_plain).split(b"\r\n")[0]
            if b"/noise" in line:
                j = line.rsplit(b"/noise", 1)[1][:2].decode("ascii", "replace")
                if bad_patch:
                    peer.script[peer.pc:] = [("rst",)] if (j[:1].isdigit() and int(j[:1]) % 2) else [("close",)]
                    return
                peer.script[peer.pc:] = [("sleep", 1.0 if mass_leave else 0.01 * (1 + len(j))),
                                         ("send", b"20 text/plain\r\nnoise " + j.encode() + b"\n"),
                                         ("close",)]
            else:
                peer.script[peer.pc:] = list(main_tail)
        script = [("wait_line",), ("call", dispatch)]
        res.stats["concurrent_requests_through_proxy"] += 1
    upstream = None
    if up["beh"] != 1:
        upstream = ScriptedServer(sim, UP, up_port, "rsa2", lambda i, s: {"script": list(script)},
                                  tls=(up["beh"] != 3))
    decoy = ScriptedServer(sim, "decoy.sim", 1965, "rsa3", lambda i, s: {"script": [("stall",)]})
    pol = DrawnPolicy(ch, "up.s2c", segmode, latency=0.001, delays=[0.001, 0.0, 0.02],
                      dribble_limit=200)

    def link(h, p):
        d = {"s2c": pol}
        if up["beh"] == 2:
            d["outcome"] = "blackhole"
        return d
    sim.loop.link_for_connect = link
    if up.get("stall_handshake") and upstream is not None:
        # upstream accepts TCP but never answers the ClientHello
        upstream.behaviour = lambda i, s: {"script": [("stall",)], "reader": "never"}
        upstream.tls = False
    old_cap = cproto.MAX_RESPONSE_BODY_SIZE
    cproto.MAX_RESPONSE_BODY_SIZE = cap
    out = {}
    req_path = ch.pick("path", ["/", "/a/b", "/q?x=1&y=2", "/ünï"])

    async def main():
        from nauyaca.server.proxy import ProxyHandler
        upstream_url = f"gemini://{UP}" + ("" if up_port == 1965 else f":{up_port}")
        srv_task = None
        server = None
        if assembly == 0:
            ph = ProxyHandler(upstream=upstream_url, prefix="/", timeout=T)
            server = await sw.start_protocol_server(sim, "plain", ph.handle, host=PROXY)
        else:
            from nauyaca.server.config import ServerConfig
            from nauyaca.server.location import HandlerType, LocationConfig
            from nauyaca.server.server import start_server
            root = pathlib.Path(scratch, "root")
            root.mkdir()
            cfg = ServerConfig(host=PROXY, port=1965, document_root=root,
                               certfile=pathlib.Path(fx.crt("rsa1")), keyfile=pathlib.Path(fx.key("rsa1")),
                               require_client_cert=(mode == "pyopenssl"),
                               locations=[LocationConfig(prefix="/", handler_type=HandlerType.PROXY,
                                                         upstream=upstream_url, timeout=T)])
            srv_task = asyncio.ensure_future(start_server(cfg, log_level="CRITICAL"))
            await asyncio.sleep(0.001)
            if srv_task.done():
                srv_task.result()
        t_req = net.now
        dscript = [("send", f"gemini://{PROXY}{req_path}".encode() + b"\r\n")]
        if leave is not None:
            dscript += [("sleep", leave), ("rst",) if ch.choose("leavehow", 2) else ("fin",)]
        noise = []
        for j in range(noise_n):
            nep = raw_connect(net, PROXY, 1965, src=("10.0.1.%d" % (j + 1), 51000 + j), tag=f"noise{j}")
            nscript = [("sleep", ch.pick("noisedelay", [0.0, 0.001, 0.005])),
                       ("send", f"gemini://{PROXY}/noise{j}".encode() + b"\r\n")]
            if mass_leave:
                nscript += [("sleep", 0.05), ("rst",) if j % 2 else ("close",)]
            noise.append(RawPeer(net, nep, nscript, tls_ctx=sw.peer_tls_ctx(mode), name=f"noise{j}"))
        out["noise"] = noise
        if mass_leave or bad_patch:
            await asyncio.sleep(0.3)
            t_req = net.now
        if warmup and upstream is not None:
            await asyncio.sleep(0.5)
            upstream.cert = "rsa4"
            t_req = net.now
        ep = raw_connect(net, PROXY, 1965, c2s=WholePolicy(0.001), s2c=WholePolicy(0.001), tag="down")
        peer = RawPeer(net, ep, dscript, tls_ctx=sw.peer_tls_ctx(mode), name="downstream")
        out["peer"] = peer
        out["t_req"] = t_req
        limit = net.now + 2 * T + 40.0
        while net.now < limit:
            await asyncio.sleep(0.25)
            if peer.eof_seen() or peer.closed:
                break
        await asyncio.sleep(2.0)
        peer.drain_final()
        if server is not None:
            server.close()
        if srv_task is not None:
            srv_task.cancel()

    try:
        status = sim.run(main(), horizon=3 * T + 200.0, max_iterations=800000)
    finally:
        cproto.MAX_RESPONSE_BODY_SIZE = old_cap
    if sim.error is not None:
        raise sim.error
    if status != "done":
        raise RuntimeError(f"C18 world ended with status {status}")

    peer = out["peer"]
    rx = bytes(peer.rx_plain)
    t_first = peer.t_first_plain
    nup = len(upstream.conns) if upstream is not None else 0
    ctx = dict(upstream=up["name"], upstream_stream=stream[:120], upstream_len=len(stream),
               upstream_end=up["end"], must=up["must"], assembly=mode, timeout=T, cap=cap,
               downstream_received=rx[:160], downstream_len=len(rx), t_first_byte=t_first,
               t_upstream_end=marks.get("t_end"), downstream_leaves=leave,
               upstream_connections=nup, request_path=req_path)
    site = f"{up['name'].split('+')[0].split('/')[0]}/{mode}"
    for j, npeer in enumerate(out.get("noise", []) if not (mass_leave or bad_patch) else []):
        npeer.drain_final()
        want_n = b"20 text/plain\r\nnoise " + str(j).encode() + b"\n"
        if bytes(npeer.rx_plain) != want_n:
            res.violate(f"C18/concurrent-request-cross-talk/{mode}",
                        f"a concurrent request through the same proxy location (/noise{j}) did not "
                        f"get its own upstream's answer", got=bytes(npeer.rx_plain)[:120],
                        want=want_n, **ctx)
    if decoy.conns:
        res.violate("C18/decoy-contacted", "the proxy connected to a host that is not its upstream",
                    **ctx)
    attempts = [c for c in net.connect_log if c[1] == UP]
    attempts = attempts[:max(0, len(attempts) - noise_n)] if noise_n else attempts
    # "relayed, never followed": after an upstream redirect (or any complete answer)
    # no second upstream connection; retrying a failed connect is not forbidden
    if len(attempts) != 1 and (up["must"] == "verbatim" or len(attempts) == 0 or len(attempts) > 3):
        res.violate(f"C18/upstream-connection-count/{site}",
                    f"{len(attempts)} connection attempts to the upstream for one request "
                    f"(redirects must be relayed, never followed; no retries)", **ctx)
    if leave is None:
        pw = sw.parse_wire(rx) if rx else None
        if not rx:
            res.violate(f"C18/no-response/{site}", "the downstream client received nothing", **ctx)
        elif not pw["ok"]:
            res.violate(f"C18/malformed-response/{site}",
                        f"the downstream client received an ill-formed response: {pw['why']}", **ctx)
        else:
            sh = strict_header(stream)
            if up["must"] == "verbatim":
                st, meta, body = sh
                want = stream[:len(stream) - len(body)] + (body if 20 <= st <= 29 else b"")
                if rx != want:
                    what = "status/meta" if rx.split(b"\r\n")[0] != want.split(b"\r\n")[0] else "body bytes"
                    cs = up.get("charset", "-")
                    res.violate(f"C18/not-relayed-verbatim/{what.replace('/', '-').replace(' ', '-')}/{mode}",
                                f"a complete valid upstream response was not relayed unchanged "
                                f"({what} differ; declared charset {cs})",
                                want=want[:160], want_len=len(want), **ctx)
            elif up["must"] == "43":
                if pw["status"] != 43:
                    res.violate(f"C18/upstream-fault-not-43/{site}",
                                f"upstream fault '{up['name']}' must be answered with status 43, "
                                f"got {pw['status']}", **ctx)
            else:
                # three-valued: verbatim or 43 (or, for grey headers, anything well-formed)
                if up["beh"] == 12:
                    st, meta, body = sh
                    want = stream[:len(stream) - len(body)] + (body if 20 <= st <= 29 else b"")
                    if pw["status"] != 43 and rx != want:
                        res.violate(f"C18/neither-verbatim-nor-43/{mode}",
                                    "after an unclean upstream end the answer must be the verbatim "
                                    "response or 43", want=want[:160], **ctx)
            # timing
            if up["must"] == "43" and t_first is not None:
                if up["end"] == "stall" or up["beh"] == 2:
                    limit = out["t_req"] + 2 * T + 1.0
                else:
                    limit = max(marks.get("t_end") or 0.0, out["t_req"]) + 1.0 + \
                        (T if up["beh"] in (3,) else 0.0)
                if t_first > limit:
                    res.violate(f"C18/43-too-late/{site}",
                                f"status 43 arrived at {t_first:.3f}, bound {limit:.3f}", **ctx)
            if not peer.eof_seen():
                res.violate(f"C18/no-close/{site}", "response sent but stream never ended", **ctx)
    else:
        res.stats["downstream_left_early"] += 1
        if rx and b"\r\n" in rx and mode == "plain":
            pw = sw.parse_wire(rx)
            if pw["status"] is None:
                res.violate(f"C18/malformed-response/{site}", "ill-formed bytes to a leaving peer",
                            **ctx)

    name = up["name"]
    probe = {"refused": "refused", "blackhole": "blackhole", "plaintext-upstream": "tls_failure",
             "close-before-any-byte": "close_before_header", "close-inside-header":
             "close_inside_header", "garbage-header": "garbage_header", "rst-in-body": "rst_in_body",
             "oversized": "oversized", "binary": "binary_relayed", "redirect": "redirect_relayed"}
    if name in probe:
        res.stats[probe[name]] += 1
    if name.startswith("stall"):
        res.stats["stall_timeout"] += 1
    if name.startswith("trickle"):
        res.stats["trickling_upstream"] += 1
    if name.startswith("text/") and up.get("charset") not in (None, "utf-8"):
        res.stats["non_utf8_text_relayed"] += 1
    if name.startswith("status-"):
        res.stats["every_status_class"] += 1
    if assembly:
        res.stats["start_server_assembly"] += 1
    res.sim_seconds = net.now
    res.signature = hashlib.sha256(repr((name, mode, up["end"], rx[:3], leave is None,
                                         sim.signature())).encode()).hexdigest()[:16]
    res.digest = sim.digest()
    res.nontrivial = up["must"] == "43" or name not in ("text/utf-8", "text/default")
    res.sample = {k: ctx[k] for k in ("upstream", "upstream_end", "must", "assembly", "timeout",
                                      "downstream_len", "upstream_connections")}
    res.sample["downstream_head"] = rx[:50].decode("latin-1")
    return res
