"""C07 - outcome independent of read segmentation; handlers run at most once.

Differential oracle: the same client bytes are delivered (a) in one write /
one segment (baseline) and (b) split into pieces (TLS records), cut at
arbitrary stream offsets by the network and spread over time (variant); the
peer-visible response, the ordered spy log and the upload directory must be
equal, and on every connection request-handler + upload-handler invocations
must be <= 1.
"""

from __future__ import annotations

import asyncio
import hashlib
import os

from sim import serverwire as sw
from sim.net import DrawnPolicy, WholePolicy, raw_connect
from sim.peers import RawPeer
from sim.runner import RunResult
from sim.world import Sim, fresh_dir

PROPERTY = "C07"
LEVEL = "exploration"
TIERS = {"quick": 20000, "thorough": 2000000}
CHUNK = 100
RULE = ("each run draws a transport mode (plain / stdlib TLS / PyOpenSSL TLS), a request shape "
        "(gemini valid/invalid, titan with content early/late/short/zero-byte, trailing garbage, "
        "extra reads after dispatch), a handler (sync/async spy, spy or real upload handler) and a "
        "segmentation (peer write pieces = TLS records, network cuts: random, 1-byte dribble, "
        "pinned to CR|LF, size-th content byte, byte 1024; per-segment delays); the run is executed "
        "twice - unsegmented baseline and segmented variant - and compared. distinct = distinct "
        "time-stripped delivery signatures of the variant; non-trivial = the variant delivered the "
        "client bytes in >= 2 reads")
PROBES = ["twin_connections_identical_request_line", "upload_handler_raised", "valid_request_behind_invalid_line", "client_closes_right_after_upload", "cut_inside_multibyte_character", "data_after_dispatch", "cut_inside_crlf", "cut_at_titan_size", "handshake_coalesced",
          "titan_dispatch", "late_extra_reads", "real_upload_handler",
          "client_closes_right_after_request"]
COMPONENTS = {
    "real": ["nauyaca.server.protocol.GeminiServerProtocol", "nauyaca.server.tls_protocol (PyOpenSSL pump)",
             "nauyaca.server.handler.FileUploadHandler", "asyncio selector transports + sslproto",
             "OpenSSL (ssl and pyOpenSSL)", "filesystem (per-run scratch dir)"],
    "stub": ["sockets/selector/clock", "scripted raw client peer (own TLS engine)", "spy handlers"],
}
ASSUMPTIONS = ["TCP is FIFO and lossless per direction; close() with unread data is modelled as FIN, "
               "not RST", "no deadline is crossed by the segmentation itself (total injected delay "
               "< 10 s against a 30 s request timeout)"]

HOST = "srv.sim"


def gen_request(ch):
    """Returns (line_bytes_with_crlf, content, extra, kind, size)."""
    kind = ch.choose("shape", 8, [5, 3, 6, 3, 2, 2, 2, 1])
    extra = b""
    content = b""
    size = 0
    if kind == 0:      # plain gemini
        path = ch.pick("path", ["/", "/a", "/dir/file.gmi", "/q?x=1", "/" + "p" * 300,
                                "/caf\u00e9", "/na\u00efve/\u20ac.gmi?q=\u65e5\u672c", "/\U0001d11e"],
                       [3, 3, 3, 3, 2, 2, 2, 1])
        line = f"gemini://{HOST}{path}".encode() + b"\r\n"
    elif kind == 1:    # gemini + trailing garbage
        line = f"gemini://{HOST}/g".encode() + b"\r\n"
        extra = ch.bytes_("garbage", ch.biased_size("glen", 1, 4000, [1, 2, 100, 1024]))
        if ch.chance("pipelined", 0.4):
            # the "garbage" is a complete second request (pipelining is not part of the protocol:
            # it must be ignored, never answered or dispatched)
            extra = ch.pick("second", [f"gemini://{HOST}/second".encode() + b"\r\n",
                                       f"titan://{HOST}/up/second.txt;size=3;mime=text/plain".encode()
                                       + b"\r\nabc",
                                       f"gemini://{HOST}/second".encode() + b"\r\n" * 3])
    elif kind == 2:    # titan, exact content
        size = ch.biased_size("tsize", 1, 6000, [1, 2, 10, 1000, 4096, 5000, 5001, 6000])
        content = ch.bytes_("content", size)
        tok = ch.pick("tok", ["", ";token=sekrit"])
        fname = ["f0", "f1", "f2", "na\u00efve-\u20ac"][ch.choose('fname', 4, [3, 3, 3, 2])]
        line = f"titan://{HOST}/up/{fname}.txt;size={size};mime=text/plain{tok}".encode() + b"\r\n"
    elif kind == 3:    # titan, content + bytes beyond the declared size
        size = ch.biased_size("tsize", 1, 3000, [1, 2, 10, 1000])
        content = ch.bytes_("content", size)
        extra = ch.bytes_("garbage", ch.biased_size("glen", 1, 3000, [1, 2, 100]))
        if ch.chance("pipelined", 0.4):
            extra = ch.pick("second", [f"titan://{HOST}/up/second.txt;size=3;mime=text/plain".encode()
                                       + b"\r\nabc", f"gemini://{HOST}/second".encode() + b"\r\n"])
        line = f"titan://{HOST}/up/x.bin;size={size};mime=application/octet-stream".encode() + b"\r\n"
    elif kind == 4:    # titan zero-byte delete (+ maybe garbage)
        line = f"titan://{HOST}/up/f0.txt;size=0".encode() + b"\r\n"
        if ch.chance("delgarb", 0.5):
            extra = ch.bytes_("garbage", ch.biased_size("glen", 1, 500, [1, 2]))
    elif kind == 5:    # titan, short content (peer then waits) -> timeout path
        size = ch.biased_size("tsize", 2, 2000, [2, 10])
        content = ch.bytes_("content", size - 1 - ch.choose("short", min(size - 1, 5)))
        line = f"titan://{HOST}/up/s.txt;size={size};mime=text/plain".encode() + b"\r\n"
    elif kind == 6:    # invalid lines
        v = ch.choose("inv", 7)
        line = [b"http://srv.sim/\r\n", b"gemini:///nohost\r\n", b"gemini://u:p@srv.sim/\r\n",
                b"gemini://srv.sim/#frag\r\n", b"gemini://srv.sim/\xff\xfe\r\n",
                b"titan://srv.sim/up/a;mime=text/plain\r\n", b"titan://srv.sim/up/a;size=abc\r\n"][v]
        if ch.chance("invgarb", 0.5):
            extra = ch.bytes_("garbage", ch.biased_size("glen", 1, 600, [1, 2]))
            if ch.chance("invpipelined", 0.5):
                # ... a complete, valid request: the connection has had its one request
                extra = ch.pick("invsecond", [f"gemini://{HOST}/second".encode() + b"\r\n",
                                              f"titan://{HOST}/up/second.txt;size=3;mime=text/plain".encode()
                                              + b"\r\nabc"])
    else:              # around the 1024 limit
        n = ch.pick("lim", [1000, 1020, 1021, 1022, 1023, 1024, 1030, 1500])
        base = f"gemini://{HOST}/".encode()
        line = base + b"a" * (n - len(base))
        if ch.chance("limcrlf", 0.7):
            line += b"\r\n"
        if ch.chance("limgarb", 0.3):
            extra = ch.bytes_("garbage", 50)
    return line, content, extra, kind, size


def run_case(ch, cfg, variant: bool, scratch):
    """One connection against a fresh server.  Returns outcome dict."""
    from nauyaca.protocol.response import GeminiResponse
    from nauyaca.server.handler import FileUploadHandler

    sim = Sim(ch)
    net = sim.net
    mode = cfg["mode"]
    stream = cfg["line"] + cfg["content"] + cfg["extra"]

    def h_fn(req):
        return GeminiResponse(status=20, meta="text/plain",
                              body="echo " + str(getattr(req, "raw_url", None)))

    spy = sw.SpyHandler(sim, {"kind": "ret", "delay": cfg["hdelay"], "fn": h_fn})
    updir = os.path.join(scratch, "up")
    os.makedirs(os.path.join(updir, "up"), exist_ok=True)
    with open(os.path.join(updir, "up", "f0.txt"), "wb") as f:
        f.write(b"old content")
    upspy = None
    if cfg["upload"] == "spy":
        def u_fn(req):
            c = getattr(req, "content", b"")
            return GeminiResponse(status=20, meta="text/plain",
                                  body="stored " + hashlib.sha256(c).hexdigest()[:12])
        plan = {"kind": "ret", "delay": cfg["udelay"], "fn": u_fn}
        if cfg.get("uraise"):
            # a handler that fails: still one invocation per connection, and a 40
            plan = {"kind": "raise", "delay": cfg["udelay"], "exc": OSError(5, "Input/output error")}
        upspy = sw.SpyUpload(sim, plan)
        up = upspy
    elif cfg["upload"] == "real":
        real = FileUploadHandler(updir, max_size=5000, enable_delete=True,
                                 auth_tokens=({"sekrit"} if cfg.get("utokens") else None))
        calls = []

        class CountingUpload:
            """counts the calls; otherwise the library's handler (attributes included)"""
            async def handle_upload(self, request):
                calls.append(net.now)
                return await real.handle_upload(request)

            def __getattr__(self, name):
                return getattr(real, name)
        up = CountingUpload()
    else:
        up = None

    mw = None
    if cfg["slowmw"] is not None:
        class SlowAllow:
            async def process_request(self, url, ip, fp=None):
                await asyncio.sleep(cfg["slowmw"])
                return True, None
        from nauyaca.server.middleware import MiddlewareChain
        mw = MiddlewareChain([SlowAllow()])

    # peer script ----------------------------------------------------------
    if not variant:
        script = [("send", stream)]
        c2s = WholePolicy(0.001)
        coalesce = True
        if cfg.get("early_close"):
            script.append(("close",))
    else:
        pieces = cfg["pieces"](ch, stream)
        script = []
        for i, (delay, chunk) in enumerate(pieces):
            if delay:
                script.append(("sleep", delay))
            script.append(("send", chunk))
        if cfg.get("early_close"):
            # the client says goodbye (close_notify / FIN) right behind its request
            script.append(("close",))
        hot = [len(cfg["line"]) - 2, len(cfg["line"]) - 1, len(cfg["line"]),
               len(cfg["line"]) + cfg["size"], 1024, 1025]
        segmode = ch.choose("segmode", 4, [2, 4, 2, 3])
        if mode != "plain":
            hot = [h + 600 for h in hot] + hot   # ciphertext offsets: just more places to cut
        c2s = DrawnPolicy(ch, "c2s", segmode, latency=0.001,
                          delays=[0.001, 0.0, 0.004, 0.03], hot=hot, dribble_limit=1500)
        coalesce = ch.chance("coalesce", 0.3)
    out = {}

    async def main():
        server = await sw.start_protocol_server(sim, mode, spy, mw, up)
        ep = raw_connect(net, HOST, 1965, c2s=c2s, s2c=WholePolicy(0.001))
        peer = RawPeer(net, ep, script, tls_ctx=sw.peer_tls_ctx(mode), coalesce_first=coalesce,
                       name="cli")
        # wait for the server to end the stream (or the timeout path: 30 s + slack)
        for _ in range(800):
            await asyncio.sleep(0.1)
            if peer.eof_seen() and peer.finished:
                break
        await asyncio.sleep(1.0)
        peer.drain_final()
        out["peer"] = peer
        server.close()

    status = sim.run(main(), horizon=200.0)
    if sim.error is not None:
        raise sim.error
    if status != "done":
        raise RuntimeError(f"C07 world ended with status {status}")
    peer = out["peer"]
    n_h = len(spy.log)
    if upspy is not None:
        n_u = len(upspy.log)
        ulog = [e[1:] for e in upspy.log]
    elif cfg["upload"] == "real":
        n_u = len(calls)
        ulog = []
    else:
        n_u = 0
        ulog = []
    reads = peer.ep.tx.deliveries
    return {
        "rx": bytes(peer.rx_plain),
        "hlog": [e[1:] for e in spy.log],
        "ulog": ulog,
        "n_h": n_h, "n_u": n_u,
        "fs": sw.snapshot(updir),
        "eof": peer.eof_seen(),
        "reads": reads,
        "sig": sim.signature(), "digest": sim.digest(), "now": net.now,
        "hs_coalesced": coalesce and mode != "plain",
        "loop_exc": list(sim.loop.exceptions),
        "t_dispatch": (spy.log[0][0] if spy.log else (upspy.log[0][0] if upspy and upspy.log else
                       (calls[0] if cfg["upload"] == "real" and calls else None))),
        "last_rx_time": max((t for t, k, w, n in net.events if k == "seg" and w.endswith("c2s")),
                            default=None),
    }


_FLAGS = {}


def gen_pieces(ch, stream):
    """Split the client stream into write pieces with delays."""
    style = ch.choose("pstyle", 4, [3, 4, 2, 2])
    n = len(stream)
    if style == 0 or n < 2:
        return [(0.0, stream)]
    cuts = set()
    if style == 1:
        for _ in range(1 + ch.choose("pn", 6)):
            cuts.add(1 + ch.choose("pcut", n - 1))
    elif style == 2:
        i = stream.find(b"\r\n")
        if i >= 0:
            for c in (i, i + 1, i + 2):
                if 0 < c < n and ch.choose("pcrlf", 2):
                    cuts.add(c)
        # inside a multi-byte character of the request line
        inner = [c for c in range(1, i if i >= 0 else n) if 0x80 <= stream[c] <= 0xBF][:12]
        for c in inner:
            if ch.choose("pmb", 3, [1, 1, 1]) == 1:
                cuts.add(c)
                _FLAGS["mb_cut"] = True
        if not cuts:
            cuts.add(1 + ch.choose("pcut", n - 1))
    else:
        # many small late pieces at the tail (reads after dispatch)
        k = 2 + ch.choose("ptail", 5)
        for j in range(1, k + 1):
            c = n - j * max(1, (n // 3) // k)
            if 0 < c < n:
                cuts.add(c)
    edges = [0] + sorted(cuts) + [n]
    delays = [0.0, 0.002, 0.05, 0.4]
    out = []
    for a, b in zip(edges, edges[1:]):
        d = delays[ch.choose("pdelay", 4, [4, 3, 2, 2])] if a else 0.0
        out.append((d, stream[a:b]))
    return out


def twin_case(ch, res):
    """Two connections at the same time with BYTE-IDENTICAL Titan request lines and different
    contents: each upload is handled once, with its own bytes, and each client is told about
    its own upload."""
    from nauyaca.protocol.response import GeminiResponse
    sim = Sim(ch)
    net = sim.net
    mode = sw.MODES[ch.choose("twin.mode", 3, [4, 2, 3])]
    size = ch.pick("twin.size", [1, 16, 700])
    contents = [bytes([65 + i]) * size for i in range(2 + ch.choose("twin.n", 2))]
    line = f"titan://{HOST}/up/same.txt;size={size};mime=text/plain".encode() + b"\r\n"

    def u_fn(req):
        c = getattr(req, "content", b"")
        return GeminiResponse(status=20, meta="text/plain", body="stored " + hashlib.sha256(c).hexdigest()[:12])
    upspy = sw.SpyUpload(sim, {"kind": "ret", "delay": ch.pick("twin.udelay", [0.0, 0.05, 0.3]), "fn": u_fn})
    spy = sw.SpyHandler(sim, {"kind": "ret", "delay": None,
                              "response": GeminiResponse(status=20, meta="text/plain", body="x")})
    peers = []

    async def main():
        server = await sw.start_protocol_server(sim, mode, spy, None, upspy)
        for i, c in enumerate(contents):
            split = ch.choose("twin.split", 2)
            script = [("send", line), ("send", c)] if split else [("send", line + c)]
            if i:
                script = [("sleep", ch.pick("twin.start", [0.0, 0.0005, 0.01]))] + script
            ep = raw_connect(net, HOST, 1965, src=("10.0.0.%d" % (i + 2), 50000 + i),
                             c2s=WholePolicy(0.001), s2c=WholePolicy(0.001), tag=f"t{i}")
            peers.append(RawPeer(net, ep, script, tls_ctx=sw.peer_tls_ctx(mode), name=f"twin{i}"))
        for _ in range(100):
            await asyncio.sleep(0.1)
            if all(p.eof_seen() for p in peers):
                break
        await asyncio.sleep(0.5)
        for p in peers:
            p.drain_final()
        server.close()
    status = sim.run(main(), horizon=100.0)
    if sim.error is not None:
        raise sim.error
    if status != "done":
        raise RuntimeError(f"C07 twin world ended with status {status}")
    want = sorted(hashlib.sha256(c).hexdigest()[:16] for c in contents)
    got = sorted(e[4] for e in upspy.log)
    ctx = dict(mode=mode, size=size, connections=len(contents), handler_saw=got, sent=want,
               answers=[bytes(p.rx_plain)[:60] for p in peers])
    if len(upspy.log) != len(contents):
        res.violate(f"C07/upload-handler-invoked-more-than-once/{mode}" if len(upspy.log) > len(contents)
                    else f"C07/upload-lost/identical-request-lines/{mode}",
                    f"{len(contents)} connections with identical request lines: {len(upspy.log)} "
                    f"upload-handler invocations", **ctx)
    elif got != want:
        res.violate(f"C07/handler-arguments-depend-on-other-connection/{mode}",
                    "connections with identical request lines and different contents: the upload "
                    "handler did not see each content exactly once", **ctx)
    else:
        for p, c in zip(peers, contents):
            exp = b"20 text/plain\r\nstored " + hashlib.sha256(c).hexdigest()[:12].encode()
            if bytes(p.rx_plain) != exp:
                res.violate(f"C07/response-depends-on-other-connection/{mode}",
                            "a client was not told about its own upload", expected=exp, **ctx)
                break
    res.stats["twin_connections_identical_request_line"] += 1
    res.stats["connections"] += len(contents)
    res.sim_seconds = net.now
    res.signature = hashlib.sha256(("twin" + sim.signature()).encode()).hexdigest()[:16]
    res.digest = sim.digest()
    res.nontrivial = True
    res.sample = ctx
    return res


def run_one(ch):
    res = RunResult()
    if ch.chance("twin", 0.04):
        return twin_case(ch, res)
    mode = sw.MODES[ch.choose("mode", 3, [6, 2, 3])]
    line, content, extra, kind, size = gen_request(ch)
    cfg = {
        "mode": mode, "line": line, "content": content, "extra": extra, "size": size, "kind": kind,
        # 31 s: slower than the request timeout - a complete request must still be answered
        # by the handler, however it was segmented
        "hdelay": ch.pick("hdelay", [None, 0.0, 0.3, 31.0], [4, 4, 4, 1]),
        "upload": ch.pick("upload", ["spy", "real", "none"], [5, 3, 1]),
        "udelay": ch.pick("udelay", [0.0, 0.3, 31.0], [4, 4, 1]),
        "slowmw": ch.pick("slowmw", [None, 0.0, 0.2], [6, 1, 2]),
        "pieces": gen_pieces,
        "uraise": ch.chance("uraise", 0.12),
        "utokens": ch.chance("utokens", 0.4),
    }
    # a client that closes its side right after the request: only where the outcome
    # cannot depend on timing (synchronous handler, no chain, Gemini request)
    if kind in (0, 1) and cfg["hdelay"] is None and cfg["slowmw"] is None and \
            ch.chance("early_close", 0.3):
        cfg["early_close"] = True
        res.stats["client_closes_right_after_request"] += 1
    # a client that leaves right behind a completely sent upload: whether the response still
    # reaches it is a matter of timing, but the EFFECT of the upload (handler invoked once with
    # the content, file stored) must not depend on how the bytes were split into reads
    # (without a chain: whether a chain still decides for a peer that has already left is
    # a race between the disconnect and the chain, not a matter of segmentation)
    if kind == 2 and cfg["upload"] in ("spy", "real") and cfg["slowmw"] is None and \
            ch.chance("early_close_upload", 0.25):
        cfg["early_close"] = True
        cfg["effects_only"] = True
        res.stats["client_closes_right_after_upload"] += 1
    _FLAGS.clear()
    base = run_case(ch, cfg, False, fresh_dir("c07a"))
    var = run_case(ch, cfg, True, fresh_dir("c07b"))
    if cfg["uraise"] and cfg["upload"] == "spy" and var["n_u"]:
        res.stats["upload_handler_raised"] += 1
    if kind == 6 and extra[:9] in (b"gemini://", b"titan://s"):
        res.stats["valid_request_behind_invalid_line"] += 1
    if _FLAGS.pop("mb_cut", False):
        res.stats["cut_inside_multibyte_character"] += 1

    ctx = dict(mode=mode, request_line=line[:120], line_len=len(line), declared_size=size,
               content_len=len(content), extra_len=len(extra), upload=cfg["upload"],
               handler_delay=cfg["hdelay"], mw_delay=cfg["slowmw"], variant_reads=var["reads"])
    for name, o in (("baseline", base), ("variant", var)):
        if o["n_h"] + o["n_u"] > 1:
            which = "upload-handler" if o["n_u"] > 1 else "handlers"
            res.violate(f"C07/{which}-invoked-more-than-once/{mode}",
                        f"{name}: {o['n_h']} request-handler and {o['n_u']} upload-handler "
                        f"invocations on one connection", **ctx)
    if base["rx"] != var["rx"] and not cfg.get("effects_only"):
        res.violate(f"C07/response-depends-on-segmentation/{mode}",
                    "bytes received by the client differ between the single-read baseline and "
                    "the segmented delivery of the same request bytes",
                    baseline=base["rx"][:300], variant=var["rx"][:300],
                    loop_exceptions=var["loop_exc"][:3], **ctx)
    elif base["hlog"] != var["hlog"] or base["ulog"] != var["ulog"]:
        res.violate(f"C07/handler-arguments-depend-on-segmentation/{mode}",
                    "handler invocations (arguments / content) differ between baseline and "
                    "segmented delivery", baseline=(base["hlog"], base["ulog"]),
                    variant=(var["hlog"], var["ulog"]), **ctx)
    elif base["fs"] != var["fs"]:
        res.violate(f"C07/upload-effect-depends-on-segmentation/{mode}",
                    "upload directory differs between baseline and segmented delivery",
                    baseline=base["fs"], variant=var["fs"], **ctx)

    # probes / stats
    res.stats["connections"] += 2
    res.stats["mode_" + mode] += 1
    if var["t_dispatch"] is not None and var["last_rx_time"] is not None and \
            var["last_rx_time"] > var["t_dispatch"]:
        res.stats["data_after_dispatch"] += 1
    if var["n_u"]:
        res.stats["titan_dispatch"] += 1
    if var["hs_coalesced"]:
        res.stats["handshake_coalesced"] += 1
    if cfg["upload"] == "real" and var["n_u"]:
        res.stats["real_upload_handler"] += 1
    if extra and var["reads"] > 2:
        res.stats["late_extra_reads"] += 1
    res.stats["cut_inside_crlf"] += 1 if var["reads"] > 1 and kind in (0, 2) else 0
    res.stats["cut_at_titan_size"] += 1 if size and var["reads"] > 1 else 0
    res.sim_seconds = base["now"] + var["now"]
    res.signature = var["sig"]
    res.digest = hashlib.sha256((base["digest"] + var["digest"]).encode()).hexdigest()[:16]
    res.nontrivial = var["reads"] >= 2
    res.sample = dict(ctx, request_line=line[:80].decode("latin-1"),
                      response=var["rx"][:60].decode("latin-1"))
    return res
