"""C04 - no handler runs for a request the middleware chain refuses.

World: server-wire, three transport modes; the REAL MiddlewareChain built from
real RateLimiter / AccessControl / CertificateAuth and scripted components
(allow / deny / raise / slow+outcome) in any order, each wrapped in a harness
recorder; spy request and upload handlers, or the real StaticFileHandler /
FileUploadHandler with a before/after directory snapshot; a share of the runs
goes through the whole start_server() with its own chain assembly.

Oracle: happens-before over the recorder and spy logs of one connection.
"""

from __future__ import annotations

import asyncio
import hashlib
import os
import pathlib
from urllib.parse import urlsplit

from sim import fixtures as fx
from sim import serverwire as sw
from sim.net import DrawnPolicy, WholePolicy, raw_connect
from sim.peers import RawPeer
from sim.runner import RunResult
from sim.world import Sim, fresh_dir

PROPERTY = "C04"
LEVEL = "exploration"
TIERS = {"quick": 40000, "thorough": 3000000}
CHUNK = 80
RULE = ("each run builds a chain of 1-4 components (real RateLimiter, AccessControl, "
        "CertificateAuth and scripted allow/deny/raise/slow ones, any order), a transport mode, "
        "peers from generated IPv4/IPv6 addresses with or without a client certificate, and 1-3 "
        "gemini/titan requests (valid and invalid) whose content, the chain's completion, the "
        "request timer and the peer's disconnect are interleaved by the seeded schedule; a share "
        "of the runs uses start_server()'s own chain assembly. distinct = distinct (chain shape, "
        "decision vector, event signature); non-trivial = some component rejected, raised or was "
        "slow, or the request was titan")
PROBES = ["overlapping_identical_requests", "client_sends_extra_chain_certificate", "policy_decisions_checked", "chain_rejected", "chain_raised", "slow_component", "titan_with_chain",
          "content_arrived_while_chain_undecided", "peer_left_while_chain_undecided",
          "client_cert_presented", "ipv6_peer", "real_handlers", "start_server_assembly",
          "timer_fired_while_chain_undecided", "flood_1000_pending_requests", "policy_from_toml"]
COMPONENTS = {
    "real": ["nauyaca.server.protocol", "nauyaca.server.middleware (chain + 3 components)",
             "nauyaca.server.server.start_server chain assembly", "nauyaca.server.tls_protocol",
             "StaticFileHandler / FileUploadHandler on a scratch directory", "asyncio, OpenSSL"],
    "stub": ["sockets/selector/clock", "raw client peers", "recorder wrappers, scripted components, "
             "spy handlers"],
}
ASSUMPTIONS = ["invalid requests need not reach the chain at all (refusing them earlier is fine)"]
HOST = "srv.sim"

SRC_IPS = ["10.0.0.5", "192.168.7.9", "203.0.113.77", "2001:db8::1", "::1", "172.16.0.1"]


class Rec:
    """Harness recorder around one chain component."""

    def __init__(self, sim, inner, name, log):
        self.sim = sim
        self.inner = inner
        self.name = name
        self.log = log

    async def process_request(self, url, ip, fp=None):
        e = {"comp": self.name, "t0": self.sim.net.now, "url": url, "ip": ip, "fp": fp,
             "t1": None, "out": None}
        self.log.append(e)
        try:
            r = await self.inner.process_request(url, ip, fp)
        except BaseException as ex:  # noqa
            e["t1"] = self.sim.net.now
            e["out"] = ("raise", type(ex).__name__)
            raise
        e["t1"] = self.sim.net.now
        try:
            e["out"] = ("allow", None) if r[0] else ("deny", r[1])
        except Exception:
            e["out"] = ("odd", repr(r))
        return r


class Scripted:
    def __init__(self, kind, delay, resp):
        self.kind = kind
        self.delay = delay
        self.resp = resp

    async def process_request(self, url, ip, fp=None):
        if self.delay:
            await asyncio.sleep(self.delay)
        if self.kind == "deny":
            return False, self.resp
        if self.kind == "raise":
            raise RuntimeError("component failed")
        if self.kind == "flaky":
            # fails the first time it is asked about a URL; would allow if asked again -
            # a request is judged once, and a failing judgement is a refusal
            seen = self.__dict__.setdefault("seen", set())
            if url not in seen:
                seen.add(url)
                raise ConnectionError("policy backend unavailable")
        return True, None


def gen_components(ch, sim, log):
    from nauyaca.server.middleware import (AccessControl, AccessControlConfig, CertificateAuth,
                                           CertificateAuthConfig, CertificateAuthPathRule,
                                           RateLimitConfig, RateLimiter)
    n = 1 + ch.choose("ncomp", 4, [3, 4, 2, 1])
    comps = []
    descr = []
    for i in range(n):
        k = ch.choose("comp", 7, [3, 2, 2, 2, 2, 2, 2])
        if k == 0:
            c = Scripted("allow", 0.0, None)
            d = "allow"
        elif k == 1:
            resp = ch.pick("denyresp", ["53 Denied by scripted component\r\n", "44 Slow down\r\n",
                                        "61 Certificate not authorized\r\n"])
            c = Scripted("deny", 0.0, resp)
            d = "deny"
        elif k == 2:
            if ch.chance("flaky", 0.4):
                c = Scripted("flaky", ch.pick("raised", [0.0, 0.05]), None)
                d = "raise-once-then-allow"
            else:
                c = Scripted("raise", ch.pick("raised", [0.0, 0.05]), None)
                d = "raise"
        elif k == 3:
            dl = ch.pick("slowd", [0.05, 0.5, 5.0, 29.9995, 30.0005, 40.0], [3, 3, 2, 1, 1, 1])
            kind = ch.pick("slowkind", ["allow", "deny", "raise"], [3, 2, 1])
            c = Scripted(kind, dl, "53 Slow denial\r\n")
            d = f"slow({dl})+{kind}"
        elif k == 4:
            cap = ch.pick("rlcap", [1, 2, 100])
            c = RateLimiter(RateLimitConfig(capacity=cap, refill_rate=0.001, retry_after=9))
            d = f"RateLimiter(cap={cap})"
        elif k == 5:
            v = ch.choose("acl", 5)
            cfg = [AccessControlConfig(deny_list=["10.0.0.0/8", "2001:db8::/32"]),
                   AccessControlConfig(allow_list=["192.168.0.0/16", "::1"]),
                   AccessControlConfig(default_allow=False),
                   AccessControlConfig(allow_list=["203.0.113.77"], deny_list=["172.16.0.0/12"]),
                   # nested / overlapping networks in one list (two block lists concatenated)
                   AccessControlConfig(deny_list=["10.0.0.0/8", "10.0.0.2/31", "2001:db8::/32",
                                                  "2001:db8::/127", "172.16.0.0/12", "172.16.0.0/30"])][v]
            c = AccessControl(cfg)
            d = f"AccessControl(v{v})"
        else:
            v = ch.choose("ca", 6)
            rules = [
                [CertificateAuthPathRule(prefix="/", require_cert=True)],
                [CertificateAuthPathRule(prefix="/up/", require_cert=True),
                 CertificateAuthPathRule(prefix="/c", require_cert=False)],
                [CertificateAuthPathRule(prefix="/", allowed_fingerprints={fx.fp("cli_rsa1")})],
                [CertificateAuthPathRule(prefix="/", allowed_fingerprints={fx.fp("cli_ed1")})],
                [CertificateAuthPathRule(prefix="/", allowed_fingerprints={fx.fp("cli_same1")})],
                # a whitelist from which the last entry was removed: nobody is allowed
                [CertificateAuthPathRule(prefix="/", allowed_fingerprints=set())],
            ][v]
            c = CertificateAuth(CertificateAuthConfig(path_rules=rules))
            d = f"CertificateAuth(v{v})"
        comps.append(Rec(sim, c, f"{i}:{d}", log))
        descr.append(d)
    return comps, descr


_ACL_ALLOWED = {"v0": {"192.168.7.9", "203.0.113.77", "::1", "172.16.0.1"},
                "v1": {"192.168.7.9", "::1"}, "v2": set(), "v3": {"203.0.113.77"},
                "v4": {"192.168.7.9", "203.0.113.77", "::1"}}
_CA_WHITELIST = {"v2": "cli_rsa1", "v3": "cli_ed1", "v4": "cli_same1"}


def policy_model(descr, path, ip, fp):
    """Expected answer ('allow' or the two status digits) of a real policy component
    for one request, from the configuration alone; None = not modelled."""
    if descr.startswith("AccessControl("):
        return "allow" if ip in _ACL_ALLOWED[descr[14:16]] else "53"
    if descr.startswith("CertificateAuth("):
        v = descr[16:18]
        if v == "v0":
            return "allow" if fp else "60"
        if v == "v1":
            return "60" if (path.startswith("/up/") and not fp) else "allow"
        if not fp:
            return "60"
        if v == "v5":
            return "61"
        return "allow" if fp == fx.fp(_CA_WHITELIST[v]) else "61"
    return None


def gen_conn(ch, i, upload_enabled):
    k = ch.choose("req", 6, [5, 5, 2, 1, 1, 1])
    info = {"kind": k, "titan": False, "valid": True, "size": 0}
    path = f"/c{i}/x"
    if k == 0:
        q = ch.pick("q", ["", "?a=1"])
        stream = f"gemini://{HOST}{path}{q}".encode() + b"\r\n"
        info["path"] = path
        info["query"] = q[1:]
    elif k == 1:
        size = ch.biased_size("tsize", 0, 2000, [0, 1, 50, 1024])
        content = ch.bytes_("tcontent", size)
        tok = ch.pick("tok", ["", ";token=sekrit"])
        stream = f"titan://{HOST}/up/t{i}.txt;size={size};mime=text/plain{tok}".encode() + b"\r\n" + content
        info.update(titan=True, size=size, path=f"/up/t{i}.txt", query="")
    elif k == 2:
        port = ch.pick("port", [":1965", ":7070"])
        stream = f"gemini://{HOST}{port}{path}".encode() + b"\r\n"
        info["path"] = path
        info["query"] = ""
        info["port"] = int(port[1:])
    elif k == 3:
        stream = ch.pick("inv", [b"http://srv.sim/c/x\r\n", b"gemini://u@srv.sim/c/x\r\n",
                                 b"gemini://srv.sim/c/x#f\r\n", b"gemini://srv.sim/\xff\r\n"])
        info["valid"] = False
    elif k == 4:
        stream = ch.pick("tinv", [b"titan://srv.sim/up/a\r\n", b"titan://srv.sim/up/a;size=zz\r\n",
                                  b"titan://u@srv.sim/up/a;size=1\r\nx"])
        info.update(titan=True, valid=False)
    else:
        stream = f"gemini://{HOST}/c{i}/" .encode() + b"a" * 1010 + b"\r\n"
        info["valid"] = False
    info["stream"] = stream
    return info


def run_one(ch):
    from nauyaca.protocol.response import GeminiResponse
    from nauyaca.server.middleware import MiddlewareChain
    res = RunResult()
    sim = Sim(ch)
    net = sim.net
    scratch = fresh_dir("c04")
    assembly = ch.choose("assembly", 2, [8, 2])
    mode = sw.MODES[ch.choose("mode", 3, [5, 2, 3])]
    real_handlers = ch.chance("realhandlers", 0.3)
    log = []
    nconn = 1 + ch.choose("nconn", 3, [5, 3, 2])
    conns = []
    docroot = os.path.join(scratch, "root")
    updir = os.path.join(scratch, "up")
    os.makedirs(docroot)
    os.makedirs(os.path.join(updir, "up"))
    for i in range(3):
        os.makedirs(os.path.join(docroot, f"c{i}"))
        with open(os.path.join(docroot, f"c{i}", "x"), "w") as f:
            f.write(f"SECRET-CONTENT-{i}\n")
        with open(os.path.join(updir, "up", f"t{i}.txt"), "w") as f:
            f.write("old upload\n")
    snap_before = (sw.snapshot(docroot), sw.snapshot(updir))
    hlog, ulog = [], []
    state = {}

    def mk_handlers():
        if real_handlers:
            from nauyaca.server.handler import FileUploadHandler, StaticFileHandler
            st = StaticFileHandler(docroot)
            up = FileUploadHandler(updir, enable_delete=True)

            def h(req):
                hlog.append((net.now, req.raw_url, getattr(req, "client_cert_fingerprint", None)))
                return st.handle(req)

            class U:
                async def handle_upload(self, req):
                    ulog.append((net.now, req.raw_url, getattr(req, "client_cert_fingerprint", None)))
                    return await up.handle_upload(req)
            return h, U()

        def h(req):
            hlog.append((net.now, req.raw_url, getattr(req, "client_cert_fingerprint", None)))
            r = GeminiResponse(status=20, meta="text/plain", body="handler ran for " + req.raw_url)
            if hd is None:
                return r

            async def later():
                await asyncio.sleep(hd)
                return r
            return later()

        class U:
            async def handle_upload(self, req):
                ulog.append((net.now, req.raw_url, getattr(req, "client_cert_fingerprint", None)))
                await asyncio.sleep(0.01)
                return GeminiResponse(status=20, meta="text/plain", body="stored")
        return h, U()

    hd = ch.pick("hdelay", [None, 0.0, 0.2])

    flood = False
    if assembly == 0:
        comps, descr = gen_components(ch, sim, log)
        flood = mode == "plain" and ch.chance("flood", 0.002)
        if flood:
            # resource exhaustion: > 1000 requests are already waiting in a slow component
            # when the judged requests arrive
            comps.insert(0, Rec(sim, Scripted("allow", 5.0, None), "0:slow(5.0)+allow[flood]", log))
            descr.insert(0, "slow(5.0)+allow[flood]")
            res.stats["flood_1000_pending_requests"] += 1
        chain = MiddlewareChain(comps)
    else:
        descr = ["start_server"]
        mode = "pyopenssl" if ch.chance("pyo", 0.5) else "stdlib"
        acl_v = ch.choose("ss_acl", 3)
        ca_v = ch.choose("ss_ca", 3) if mode == "pyopenssl" else 0
        rl_cap = ch.pick("ss_rl", [100, 1])
        state.update(acl_v=acl_v, ca_v=ca_v, rl_cap=rl_cap, via_toml=ch.chance("via_toml", 0.5))

    for i in range(nconn):
        info = gen_conn(ch, i, True)
        info["ip"] = SRC_IPS[ch.choose("ip", len(SRC_IPS))]
        # cli_bundle: the client sends its own certificate (cli_rsa2) plus a copy of the
        # whitelisted cli_rsa1 certificate it holds no key for - it presented cli_rsa2
        info["cert"] = ch.pick("cert", [None, "cli_rsa1", "cli_ed1", "cli_same1", "cli_same2",
                                        "cli_bundle"],
                               [4, 2, 1, 2, 2, 2]) if mode != "plain" else None
        info["start"] = ch.pick("cstart", [0.0, 0.01, 0.7]) if i else 0.0
        # content arrives late (titan): split after the line with a delay
        info["late"] = ch.pick("late", [0.0, 0.02, 1.0, 6.0], [5, 3, 2, 1])
        info["leave"] = ch.pick("leave", [None, 0.001, 0.1, 2.0], [8, 1, 1, 1])
        conns.append(info)

    # two or three overlapping IDENTICAL requests (same URL, same peer address, same certificate):
    # each is judged by its own walk through the chain
    dup = assembly == 0 and nconn >= 2 and ch.chance("duplicates", 0.1)
    if dup:
        for c_ in conns[1:]:
            for k_ in ("kind", "titan", "valid", "size", "stream", "path", "query", "port", "ip", "cert"):
                if k_ in conns[0]:
                    c_[k_] = conns[0][k_]
                else:
                    c_.pop(k_, None)
            c_["start"] = ch.pick("dupstart", [0.0, 0.001, 0.01])
            c_["dup"] = True
        conns[0]["dup"] = True
        res.stats["overlapping_identical_requests"] += 1

    async def main():
        srv_task = None
        server = None
        h, u = mk_handlers()
        if assembly == 0:
            server = await sw.start_protocol_server(sim, mode, h, chain, u)
        else:
            from nauyaca.server.config import ServerConfig
            from nauyaca.server.middleware import (AccessControlConfig, CertificateAuthConfig,
                                                   CertificateAuthPathRule, RateLimitConfig)
            from nauyaca.server.server import start_server
            acl = [None, AccessControlConfig(deny_list=["10.0.0.0/8"]),
                   AccessControlConfig(allow_list=["192.168.0.0/16", "::1"])][state["acl_v"]]
            ca = [None,
                  CertificateAuthConfig([CertificateAuthPathRule(prefix="/c0", require_cert=True)]),
                  CertificateAuthConfig([CertificateAuthPathRule(
                      prefix="/", allowed_fingerprints={fx.fp("cli_rsa1")})])][state["ca_v"]]
            cfg = ServerConfig(host=HOST, port=1965, document_root=pathlib.Path(docroot),
                               certfile=pathlib.Path(fx.crt("rsa1")), keyfile=pathlib.Path(fx.key("rsa1")),
                               require_client_cert=(mode == "pyopenssl"))
            rl = RateLimitConfig(capacity=state["rl_cap"], refill_rate=0.001)
            if state.get("via_toml"):
                # the same policy written in a TOML file and read back through ServerConfig,
                # the way the command line starts the server
                toml = [f'[server]\nhost = "{HOST}"\nport = 1965\ndocument_root = "{docroot}"\n'
                        f'certfile = "{fx.crt("rsa1")}"\nkeyfile = "{fx.key("rsa1")}"\n'
                        f'require_client_cert = {"true" if mode == "pyopenssl" else "false"}\n',
                        f'[rate_limit]\ncapacity = {state["rl_cap"]}\nrefill_rate = 0.001\n']
                if state["acl_v"] == 1:
                    toml.append('[access_control]\ndeny_list = ["10.0.0.0/8"]\n')
                elif state["acl_v"] == 2:
                    toml.append('[access_control]\nallow_list = ["192.168.0.0/16", "::1"]\n')
                if state["ca_v"] == 1:
                    toml.append('[[certificate_auth.paths]]\nprefix = "/c0"\nrequire_cert = true\n')
                elif state["ca_v"] == 2:
                    toml.append('[[certificate_auth.paths]]\nprefix = "/"\nallowed_fingerprints = ["%s"]\n'
                                % fx.fp("cli_rsa1"))

                tpath = pathlib.Path(scratch, "server.toml")
                tpath.write_text("\n".join(toml))
                cfg = ServerConfig.from_toml(tpath)
                rl = cfg.get_rate_limit_config()
                acl = cfg.get_access_control_config()
                ca = cfg.get_certificate_auth_config()
                res.stats["policy_from_toml"] += 1
            srv_task = asyncio.ensure_future(start_server(
                cfg, log_level="CRITICAL", enable_rate_limiting=True,
                rate_limit_config=rl,
                access_control_config=acl, certificate_auth_config=ca))
            await asyncio.sleep(0.001)
            if srv_task.done():
                srv_task.result()
        if flood:
            for j in range(1050):
                bep = raw_connect(net, HOST, 1965, src=("10.77.%d.%d" % (j // 250, j % 250), 20000 + j),
                                  tag=f"bg{j}")
                RawPeer(net, bep, [("send", f"gemini://{HOST}/bg/x".encode() + b"\r\n")], name=f"bg{j}")
            await asyncio.sleep(0.5)
        for i, c in enumerate(conns):
            if c["start"]:
                await asyncio.sleep(c["start"])
            stream = c["stream"]
            j = stream.find(b"\r\n") + 2
            script = [("send", stream[:j])]
            if len(stream) > j:
                if c["late"]:
                    script.append(("sleep", c["late"]))
                script.append(("send", stream[j:]))
            if c["leave"] is not None:
                script += [("sleep", c["leave"]), ("rst",) if ch.choose("leavehow", 2) else ("fin",)]
            ip = c["ip"]
            src = (ip, 51000 + i, 0, 0) if ":" in ip else (ip, 51000 + i)
            pol = DrawnPolicy(ch, "c2s", ch.choose("segmode", 2, [3, 1]), latency=0.001)
            ep = raw_connect(net, HOST, 1965, src=src, c2s=pol, s2c=WholePolicy(0.001), tag=f"k{i}")
            c["peer"] = RawPeer(net, ep, script, tls_ctx=sw.peer_tls_ctx(mode, c["cert"]),
                                name=f"cli{i}")
            c["t0"] = net.now
        t_end = net.now + 90.0
        while net.now < t_end:
            await asyncio.sleep(0.5)
            if all(c["peer"].eof_seen() or c["peer"].closed for c in conns) and net.now > 1.0:
                break
        await asyncio.sleep(45.0)
        for c in conns:
            c["peer"].drain_final()
        if server is not None:
            server.close()
        if srv_task is not None:
            srv_task.cancel()

    status = sim.run(main(), horizon=400.0, max_iterations=500000)
    if sim.error is not None:
        raise sim.error
    if status != "done":
        raise RuntimeError(f"C04 world ended with status {status}")

    snap_after = (sw.snapshot(docroot), sw.snapshot(updir))
    any_reject = any_raise = False
    if dup and conns[0]["valid"]:
        mark0 = "/c0/" if not conns[0]["titan"] else "/up/t0.txt"
        runs = len([e for e in (ulog if conns[0]["titan"] else hlog) if mark0 in (e[1] or "")])
        last = comps[-1].name
        walks_allowed = len([e for e in log if mark0 in (e["url"] or "") and e["comp"] == last
                             and e["out"] and e["out"][0] == "allow"])
        if runs > walks_allowed:
            res.violate("C04/handler-ran-without-chain/duplicate-requests/" + mode,
                        f"{len(conns)} overlapping identical requests: the handler ran {runs} times but only "
                        f"{walks_allowed} walks through the chain ended in 'allow' - a verdict was handed to "
                        f"a request the chain never judged", chain=descr, request=conns[0]["stream"][:100],
                        consultations=len([e for e in log if mark0 in (e["url"] or "")]))
    for i, c in enumerate(conns):
        if c.get("dup"):
            res.stats["connections"] += 1
            continue
        peer = c["peer"]
        rx = bytes(peer.rx_plain)
        mark = f"/c{i}/" if not c["titan"] else f"/up/t{i}.txt"
        inv = [e for e in (ulog if c["titan"] else hlog) if mark in (e[1] or "")]
        other = [e for e in (hlog if c["titan"] else ulog) if mark in (e[1] or "")]
        ctx = dict(mode=mode, assembly=["bare", "start_server"][assembly], chain=descr, conn=i,
                   request=c["stream"][:100], peer_ip=c["ip"], client_cert=c["cert"],
                   received=rx[:160], invocations=len(inv), real_handlers=real_handlers,
                   content_delay=c["late"], peer_leaves_after=c["leave"])
        site = ("titan" if c["titan"] else "gemini") + "/" + mode
        if assembly == 0:
            mine = [e for e in log if mark in (e["url"] or "")]
            ctx["chain_log"] = [(e["comp"], e["t0"], e["t1"], e["out"]) for e in mine][:8]
            # chain verdict from the per-component records
            verdict = None      # None = undecided / not consulted
            first_deny = None
            if mine:
                verdict = "allow"
                for e in mine:
                    if e["out"] is None:
                        verdict = "undecided"
                        break
                    if e["out"][0] == "deny":
                        verdict = "deny"
                        first_deny = e
                        break
                    if e["out"][0] in ("raise", "odd"):
                        verdict = "raise"
                        break
                if verdict == "allow" and len(mine) < len(comps):
                    verdict = "undecided"
            t_decided = mine[-1]["t1"] if mine and verdict == "allow" else None
            # the real policy components judged *this* request: its own path, the real
            # peer address and the certificate actually presented (independent model of
            # the few configured policies)
            if c["valid"]:
                fp_presented = fx.fp(c["cert"]) if (c["cert"] and mode == "pyopenssl") else None
                for e in mine:
                    if e["out"] is None or e["out"][0] not in ("allow", "deny"):
                        continue
                    want = policy_model(e["comp"].split(":", 1)[1], c.get("path", ""), c["ip"],
                                        fp_presented)
                    if want is None:
                        continue
                    got = e["out"][0] if e["out"][0] == "allow" else e["out"][1][:2]
                    if got != want:
                        res.stats["policy_decisions_checked"] += 1
                        res.violate(f"C04/policy-not-applied-to-this-request/{site}",
                                    f"component {e['comp']} answered {got!r} for path "
                                    f"{c.get('path')!r}, peer {c['ip']}, certificate {c['cert']!r}: "
                                    f"the configured policy gives {want!r}", **ctx)
                    else:
                        res.stats["policy_decisions_checked"] += 1
            if inv or other:
                t_inv = (inv or other)[0][0]
                if verdict is None:
                    res.violate(f"C04/handler-ran-without-chain/{site}",
                                "a handler was invoked although the middleware chain was never "
                                "consulted for this request", **ctx)
                elif verdict != "allow":
                    res.violate(f"C04/handler-ran-although-chain-{verdict}/{site}",
                                f"a handler was invoked although the chain's outcome was {verdict}",
                                **ctx)
                elif t_decided is None or t_decided > t_inv:
                    res.violate(f"C04/handler-ran-before-chain-decided/{site}",
                                "a handler was invoked before the chain had finished", **ctx)
            if mine:
                # arguments the chain was consulted with
                e0 = mine[0]
                if e0["ip"] != c["ip"]:
                    res.violate(f"C04/wrong-peer-address/{site}",
                                f"chain consulted with client_ip={e0['ip']!r}, real peer is {c['ip']!r}",
                                **ctx)
                want_fp = fx.fp(c["cert"]) if (c["cert"] and mode == "pyopenssl") else None
                if e0["fp"] != want_fp:
                    res.violate(f"C04/wrong-fingerprint/{site}",
                                f"chain consulted with fingerprint {e0['fp']!r}, peer presented "
                                f"{want_fp!r}", **ctx)
                try:
                    u = urlsplit(e0["url"])
                    upath = u.path.split(";")[0]
                    if u.hostname != HOST or upath != c.get("path") or \
                            (not c["titan"] and (u.query or "") != c.get("query", "")) or \
                            (u.port or 1965) != c.get("port", 1965):
                        res.violate(f"C04/wrong-url/{site}",
                                    f"chain consulted with URL {e0['url']!r} for this request", **ctx)
                except ValueError:
                    res.violate(f"C04/wrong-url/{site}", f"unparsable URL {e0['url']!r}", **ctx)
            stayed = c["leave"] is None
            if verdict == "deny" and stayed:
                any_reject = True
                if rx != first_deny["out"][1].encode():
                    res.violate(f"C04/rejection-response-not-relayed/{site}",
                                "the client did not receive exactly the first rejecting "
                                "component's response", expected=first_deny["out"][1], **ctx)
            if verdict == "raise":
                any_raise = True
                if stayed:
                    pw = sw.parse_wire(rx)
                    if not pw["ok"] or 20 <= pw["status"] <= 29:
                        res.violate(f"C04/raising-component-not-refused/{site}",
                                    "a component raised but the client did not get a well-formed "
                                    "non-success response", parsed=pw["why"], **ctx)
            if verdict in ("deny", "raise", "undecided", None) and c["valid"] and not (inv or other):
                pass
            # probes
            if mine and c["titan"]:
                res.stats["titan_with_chain"] += 1
            if mine and any(e["t1"] is not None and e["t1"] - e["t0"] > 0.01 for e in mine):
                res.stats["slow_component"] += 1
                if c["titan"] and c["late"] and c["late"] < mine[-1]["t1"] - mine[0]["t0"]:
                    res.stats["content_arrived_while_chain_undecided"] += 1
                if c["leave"] is not None and c["leave"] < mine[-1]["t1"] - mine[0]["t0"]:
                    res.stats["peer_left_while_chain_undecided"] += 1
                if mine[-1]["t1"] - mine[0]["t0"] >= 30.0:
                    res.stats["timer_fired_while_chain_undecided"] += 1
        else:
            # start_server: expected decision from the simple configurations
            ip = c["ip"]
            denied = None
            if c["valid"] and not c["titan"]:
                if state["ca_v"] == 1 and c.get("path", "").startswith("/c0") and not c["cert"]:
                    denied = b"60"
                elif state["ca_v"] == 2 and c["cert"] != "cli_rsa1":
                    denied = b"60" if not c["cert"] else b"61"
                elif state["acl_v"] == 1 and ip.startswith("10."):
                    denied = b"53"
                elif state["acl_v"] == 2 and not (ip.startswith("192.168.") or ip == "::1"):
                    denied = b"53"
            ctx["expected_refusal"] = denied
            if denied is not None and c["leave"] is None:
                any_reject = True
                if not rx.startswith(denied + b" ") or b"SECRET-CONTENT" in rx:
                    res.violate(f"C04/start_server-chain-not-enforced/{site}",
                                f"request that the configured chain must refuse with {denied!r} "
                                f"was answered differently", **ctx)
            if denied is not None and b"SECRET-CONTENT" in rx:
                res.violate(f"C04/start_server-content-leaked/{site}",
                            "file content delivered for a refused request", **ctx)
        if c["cert"] and mode == "pyopenssl":
            res.stats["client_cert_presented"] += 1
            if c["cert"] == "cli_bundle":
                res.stats["client_sends_extra_chain_certificate"] += 1
        if ":" in c["ip"]:
            res.stats["ipv6_peer"] += 1
        res.stats["connections"] += 1

    # filesystem: files of connections whose chain did not allow must be unchanged
    if real_handlers and assembly == 0:
        res.stats["real_handlers"] += 1
        for i, c in enumerate(conns):
            if c.get("dup"):
                continue
            mine = [e for e in log if (f"/up/t{i}.txt" in (e["url"] or ""))]
            allowed = bool(mine) and all(e["out"] and e["out"][0] == "allow" for e in mine) and \
                len(mine) == len(comps)
            if c["titan"] and not allowed:
                k = os.path.normpath(f"up/t{i}.txt")
                if snap_before[1].get(k) != snap_after[1].get(k):
                    res.violate("C04/file-changed-for-refused-upload/" + mode,
                                "upload target changed although the chain did not allow the request",
                                before=snap_before[1].get(k), after=snap_after[1].get(k),
                                chain=descr, request=c["stream"][:100])
    if assembly == 1:
        res.stats["start_server_assembly"] += 1
    if any_reject:
        res.stats["chain_rejected"] += 1
    if any_raise:
        res.stats["chain_raised"] += 1
    res.sim_seconds = net.now
    res.signature = hashlib.sha256((repr(descr) + sim.signature()).encode()).hexdigest()[:16]
    res.digest = sim.digest()
    res.nontrivial = any_reject or any_raise or any(c["titan"] for c in conns) or \
        res.stats.get("slow_component", 0) > 0
    res.sample = {"mode": mode, "assembly": ["bare", "start_server"][assembly], "chain": descr,
                  "requests": [c["stream"][:60].decode("latin-1") for c in conns],
                  "peer_ips": [c["ip"] for c in conns],
                  "received": [bytes(c["peer"].rx_plain[:40]).decode("latin-1") for c in conns]}
    return res
