"""C10 - rate limiting bounds admitted requests per address in every window.

World: the REAL RateLimiter with start() called (clean-up task alive on the
simulated loop) under the virtual clock; 70 % of the runs call
process_request from simulated client tasks, 30 % go through the real
GeminiServerProtocol + MiddlewareChain on the plaintext wire with raw peers
connecting from several source addresses.

Oracle: a per-address token bucket in exact rational arithmetic with NO
clean-up, advanced in the order the limiter was actually entered.
"""

from __future__ import annotations

import asyncio
from fractions import Fraction

from sim.runner import RunResult
from sim.world import Sim

PROPERTY = "C10"
LEVEL = "exploration"
TIERS = {"quick": 12000, "thorough": 1500000}
CHUNK = 100
RULE = ("each run draws capacity 1-12, a refill rate from {0.005..50}/s, 1-5 peer addresses and an "
        "arrival history of 5-300 events on a time grid mixing bursts, gaps near 1/refill_rate and "
        "idles around 300/600/900 s (several clean-up periods, both sides of the eviction age); "
        "decisions of the real RateLimiter (clean-up task running, virtual clock) are compared "
        "event by event with an exact-rational token bucket without clean-up, plus the window "
        "bound over the admitted history. distinct = distinct (config, decision-vector, eviction "
        "pattern) signatures; non-trivial = at least one refusal AND (an eviction or a concurrent "
        "burst or a second address) occurred")
PROBES = ["burst_during_a_large_cleanup_pass", "limiter_is_the_middleware_itself", "wire_mode_over_tls", "uploads_in_wire_mode", "peer_says_goodbye_with_its_request", "wall_clock_stepped_during_the_run", "peer_reset_after_admission", "requests_with_varying_client_certificate", "many_address_flood", "config_from_toml", "cleanup_race_scenario", "eviction_happened", "refusal", "slow_refill_run", "concurrent_burst", "wire_mode",
          "idle_ge_600_with_partial_bucket"]
COMPONENTS = {
    "real": ["nauyaca.server.middleware.RateLimiter/TokenBucket/MiddlewareChain",
             "nauyaca.server.protocol.GeminiServerProtocol (wire mode)",
             "asyncio tasks, sleep, selector transports"],
    "stub": ["clock (time.monotonic -> virtual)", "sockets/selector (wire mode)",
             "scripted raw client peers", "scripted slow middleware component"],
}
ASSUMPTIONS = [
    "float vs exact arithmetic: when the exact model is within 1e-9 of the threshold but not "
    "exactly on it, the implementation's decision is adopted (grey zone)",
]

RATES = [1.0, 0.5, 2.0, 0.1, 0.01, 0.005, 10.0, 50.0, 0.25]
EPS = Fraction(1, 10**9)


class Model:
    def __init__(self, cap, rate):
        self.cap = Fraction(cap)
        self.rate = Fraction(rate)
        self.b = {}
        self.inexact = {}     # ip -> True once binary floating point may have rounded

    @staticmethod
    def _repr(x):
        try:
            return Fraction(float(x)) == x
        except OverflowError:
            return False

    def grey(self, ip, now):
        """The exact level is within EPS of the admission threshold and the
        implementation's float arithmetic cannot be held to the exact answer:
        either the level is not exactly 1, or it is exactly 1 but some
        intermediate value since the bucket was last full was not representable
        in binary floating point (so a correctly rounded float can sit one ulp
        below 1).  On a float-exact history `level == 1` stays a strict case."""
        lvl = self.level(ip, now)
        if abs(lvl - 1) >= EPS:
            return False
        if lvl != 1:
            return True
        return self.inexact.get(ip, False) or not self._step_exact(ip, now)

    def _step_exact(self, ip, now):
        st = self.b.get(ip)
        if st is None:
            return True
        tok, last = st
        el = Fraction(now) - last
        return self._repr(el) and self._repr(el * self.rate) and self._repr(tok + el * self.rate)

    def level(self, ip, now):
        now = Fraction(now)
        st = self.b.get(ip)
        if st is None:
            return self.cap
        tok, last = st
        return min(self.cap, tok + (now - last) * self.rate)

    def commit(self, ip, now, admitted):
        lvl = self.level(ip, now)
        st = self.b.get(ip)
        if st is not None:
            raw = st[0] + (Fraction(now) - st[1]) * self.rate
            if raw >= self.cap + EPS:
                self.inexact[ip] = False      # clamped to a full bucket: history forgotten
            elif not self._step_exact(ip, now):
                self.inexact[ip] = True
        if admitted:
            lvl -= 1
        self.b[ip] = (lvl, Fraction(now))


def gaps_for(rate):
    inv = 1.0 / rate if rate else 10.0
    g = [0.0, 1 / 64, 0.25, 1.0, inv, max(0.0, inv - 1 / 64), inv + 1 / 64, inv / 2, 5.0, 60.0,
         299.0, 300.0, 301.0, 599.0, 600.0, 601.0, 650.0, 900.0, 1250.0]
    w = [30, 8, 8, 8, 10, 4, 4, 4, 4, 3, 1, 2, 1, 2, 3, 3, 3, 2, 2]
    return g, w


def run_one(ch):
    res = RunResult()
    cap = ch.int_in("cap", 1, 12)
    rate = RATES[ch.choose("rate", len(RATES))]
    retry = ch.pick("retry", [30, 1, 7, 120])
    # the limiter's configuration as written in a TOML file, through ServerConfig
    from_toml = ch.chance("from_toml", 0.2)
    if from_toml:
        z = ch.choose("zero", 5, [5, 1, 1, 1, 1])
        if z == 1:
            cap = 0            # "refuse everything"
        elif z == 2:
            rate = 0.0         # fixed quota, never refilled
        elif z == 3:
            retry = 0
        elif z == 4:
            cap = ch.pick("tomlcap", [1, 10, 11])
    naddr = 1 + ch.choose("naddr", 5, [4, 3, 2, 1, 1])
    nev = 5 + ch.choose("nev", 296, None)
    wire = ch.chance("wire", 0.3)
    if wire:
        nev = min(nev, 60)
    slow_mw = wire and ch.chance("slowmw", 0.4)
    gaps, gw = gaps_for(rate)
    addrs = [f"10.1.0.{i + 1}" for i in range(naddr)]
    if naddr >= 3:
        addrs[2] = "2001:db8::7"

    from nauyaca.server.middleware import MiddlewareChain, RateLimitConfig, RateLimiter

    def make_config():
        if not from_toml:
            return RateLimitConfig(capacity=cap, refill_rate=rate, retry_after=retry)
        import pathlib
        from nauyaca.server.config import ServerConfig
        from sim.world import fresh_dir
        d = fresh_dir("c10")
        path = pathlib.Path(d, "config.toml")
        path.write_text(f'[server]\ndocument_root = "{d}"\n\n[rate_limit]\ncapacity = {cap}\n'
                        f'refill_rate = {rate!r}\nretry_after = {retry}\n')
        res.stats["config_from_toml"] += 1
        return ServerConfig.from_toml(path).get_rate_limit_config()

    sim = Sim(ch)
    net = sim.net
    if ch.chance("wallstep", 0.15):
        # the wall clock is stepped during the history: allowances follow the monotonic clock
        for _ in range(1 + ch.choose("wallstep.n", 3)):
            net.step_wall_clock(ch.pick("wallstep.t", [0.5, 5.0, 100.0, 700.0, 2000.0]),
                                ch.pick("wallstep.d", [-3600.0, -5.0, 5.0, 3600.0, 86400.0]))
        res.stats["wall_clock_stepped_during_the_run"] += 1
    model = Model(cap, rate)
    decisions = []     # (t, ip, allow, response)
    st = {"evictions": 0, "burst": False, "idle_partial": False, "leaver": False, "fp": False,
          "titan": False, "goodbye": False}

    rl_holder = {}

    def observe_buckets(known):
        rl = rl_holder["rl"]
        cur = set(getattr(rl, "buckets", {}).keys())
        gone = known - cur
        if gone:
            st["evictions"] += len(gone)
        return cur

    def check_decision(t, ip, allow, response):
        lvl = model.level(ip, t)
        expect = lvl >= 1
        if model.grey(ip, t):
            expect = allow      # grey zone: float vs exact
        if allow != expect:
            res.violate(
                "C10/decision-differs/" + ("admitted-with-empty-allowance" if allow
                                           else "refused-with-allowance-left"),
                f"address {ip} at t={t}: implementation {'admitted' if allow else 'refused'} "
                f"but the exact token bucket (no clean-up) holds {float(lvl):.6f} tokens",
                t=t, ip=ip, cap=cap, rate=rate, model_tokens=float(lvl),
                history=[(d[0], d[1], d[2]) for d in decisions[-12:]])
        if not allow:
            ok = isinstance(response, str) and response.startswith("44 ") and \
                response.endswith("\r\n") and str(retry) in response and \
                "\n" not in response[:-2] and "\r" not in response[:-2]
            if not ok:
                res.violate("C10/refusal-response-malformed",
                            f"refusal does not carry status 44 with retry hint {retry}: {response!r}")
        elif response is not None:
            res.violate("C10/admit-with-response", f"admitted but response={response!r}")
        model.commit(ip, t, allow)
        decisions.append((t, ip, allow, response))

    async def direct():
        # the allowance belongs to the address, whatever client certificate comes with it
        with_fp = ch.chance("with_fp", 0.3)
        st["fp"] = with_fp
        rl = RateLimiter(make_config())
        rl_holder["rl"] = rl
        rl.start()
        known = set()
        last_seen = {}
        for i in range(nev):
            gap = gaps[ch.choose("gap", len(gaps), gw)]
            await asyncio.sleep(gap)      # gap 0 still yields to the loop
            known = observe_buckets(known)
            ip = addrs[ch.choose("addr", naddr)]
            burst = 1
            if ch.chance("burst", 0.12):
                burst = 2 + ch.choose("burstn", 6)
                st["burst"] = True
            t = net.now
            if ip in last_seen and t - last_seen[ip] >= 600:
                lvl = model.level(ip, t)
                if lvl < model.cap:
                    st["idle_partial"] = True
            last_seen[ip] = t

            async def one(ip=ip):
                fpv = None
                if with_fp:
                    fpv = [None, "sha256:" + "a" * 64, "sha256:" + "b" * 64, "sha256:" + "c" * 64][
                        ch.choose("fp", 4)]
                allow, resp = await rl.process_request("gemini://h.sim/", ip, fpv)
                check_decision(net.now, ip, allow, resp)
            if burst == 1:
                await one()
            else:
                ips = [ip] + [addrs[ch.choose("addr", naddr)] for _ in range(burst - 1)]
                await asyncio.gather(*[one(x) for x in ips])
            known |= set(getattr(rl, "buckets", {}).keys())
        await rl.stop()

    async def wired():
        from nauyaca.protocol.response import GeminiResponse
        from nauyaca.server.protocol import GeminiServerProtocol
        from sim.net import raw_connect
        from sim.peers import RawPeer
        rl = RateLimiter(make_config())
        rl_holder["rl"] = rl
        rl.start()
        order = []

        class Entry:
            """harness spy directly in front of the limiter: records entry order"""
            async def process_request(self, url, ip, fp=None):
                order.append((net.now, ip))
                seen_as[url] = ip
                return True, None

        class Slow:
            async def process_request(self, url, ip, fp=None):
                d = slow_delay.get(ip, 0.0)
                if d:
                    await asyncio.sleep(d)
                return True, None

        slow_delay = {}
        exits = []
        admitted_urls = set()
        seen_as = {}       # url -> address the chain was told
        true_ip = {}       # url -> address the request really came from
        executed = []      # urls whose upload was carried out

        class Upload:
            async def handle_upload(self, request):
                executed.append(str(getattr(request, "raw_url", "")).split(";")[0])
                return GeminiResponse(status=20, meta="text/plain", body="stored")

        class Exit:
            """harness spy directly behind the limiter: reached = the limiter admitted"""
            async def process_request(self, url, ip, fp=None):
                exits.append(ip)
                admitted_urls.add(url)
                return True, None

        comps = ([Slow()] if slow_mw else []) + [Entry(), rl, Exit()]
        chain = MiddlewareChain(comps)
        # ... or the limiter object itself is the server's middleware (no chain around it): the
        # harness then watches it through a subclass that only records the calls
        bare = ch.chance("bare_limiter", 0.15)
        if bare:
            await rl.stop()

            class Watched(RateLimiter):
                async def process_request(self, url, ip, fp=None):
                    order.append((net.now, ip))
                    seen_as[url] = ip
                    r = await RateLimiter.process_request(self, url, ip, fp)
                    if r[0]:
                        exits.append(ip)
                        admitted_urls.add(url)
                    return r
            rl = Watched(make_config())
            rl_holder["rl"] = rl
            rl.start()
            chain = rl
            res.stats["limiter_is_the_middleware_itself"] += 1
        # asynchronous handler + peers that reset their connection after admission and
        # before the answer: an admitted request stays admitted
        async_h = ch.chance("async_handler", 0.4)
        hd = ch.pick("hdelay", [0.05, 0.5]) if async_h else 0.0
        leavers = set()

        def handler(req):
            r = GeminiResponse(status=20, meta="text/plain", body="ok")
            if not async_h:
                return r

            async def later():
                await asyncio.sleep(hd)
                return r
            return later()
        import sim.serverwire as sw
        wmode = ch.pick("wiremode", ["plain", "pyopenssl", "stdlib"], [3, 2, 1])
        server = await sw.start_protocol_server(sim, wmode, handler, chain, Upload(), host="srv.sim")
        if wmode != "plain":
            res.stats["wire_mode_over_tls"] += 1
        peers = []
        known = set()
        port = 50000
        for i in range(nev if wmode == "plain" else min(nev, 20)):
            gap = gaps[ch.choose("gap", len(gaps), gw)]
            if gap:
                await asyncio.sleep(gap)
            known = observe_buckets(known)
            burst = 1
            if ch.chance("burst", 0.2):
                burst = 2 + ch.choose("burstn", 4)
                st["burst"] = True
            for _ in range(burst):
                ip = addrs[ch.choose("addr", naddr)]
                if slow_mw:
                    slow_delay[ip] = ch.pick("slowd", [0.0, 0.01, 0.2, 1.0])
                port += 1
                ep = raw_connect(net, "srv.sim", 1965, src=(ip, port))
                if ch.chance("titan", 0.25):
                    # an upload: request line and content as two writes (two TLS records)
                    u = f"titan://srv.sim/up/u{port}.txt"
                    script = [("send", (u + ";size=3;mime=text/plain\r\n").encode()), ("send", b"abc")]
                    st["titan"] = True
                else:
                    u = f"gemini://srv.sim/x{port}"
                    script = [("send", u.encode() + b"\r\n")]
                true_ip[u] = ip
                if async_h and ch.chance("leaver", 0.4):
                    script += [("sleep", ch.pick("leave_after", [0.002, 0.02, 0.2])), ("rst",)]
                    leavers.add(port)
                    st["leaver"] = True
                elif ch.chance("goodbye", 0.2):
                    # says goodbye (close_notify / FIN) right behind its request, in the same flight
                    script += [("close",)]
                    leavers.add(port)
                    st["goodbye"] = True
                p = RawPeer(net, ep, script, tls_ctx=sw.peer_tls_ctx(wmode), name=f"p{port}")
                p.c10_port = port
                peers.append((ip, p))
            known |= set(getattr(rl, "buckets", {}).keys())
        await asyncio.sleep(5.0)
        # decisions in limiter-entry order, outcome read from the wire
        by_ip = {}
        for ip, p in peers:
            by_ip.setdefault(ip, []).append(p)
        if len(order) < len(peers) and not leavers:
            res.violate("C10/limiter-not-consulted",
                        f"wire mode: {len(peers)} requests reached the server, the limiter was asked "
                        f"{len(order)} times", bare_limiter=bare, wire_mode=wmode)
            return
        if len(order) > len(peers):
            raise RuntimeError(f"wire mode: {len(order)} limiter entries for {len(peers)} requests")
        # peers of one ip may be reordered by the slow component; match by outcome count instead:
        # replay entry order through the model and compare the multiset of outcomes per ip
        got = {}
        for ip, p in peers:
            data = bytes(p.rx_plain)
            if p.c10_port in leavers:
                continue
            if data.startswith(b"20 text/plain\r\nok") or data.startswith(b"20 text/plain\r\nstored"):
                got.setdefault(ip, []).append(True)
            elif data.startswith(b"44 "):
                got.setdefault(ip, []).append(False)
                txt = data.decode("utf-8", "replace")
                if not (txt.endswith("\r\n") and str(retry) in txt and txt.count("\r\n") == 1):
                    res.violate("C10/refusal-response-malformed",
                                f"wire refusal malformed: {txt!r}")
            else:
                res.violate("C10/wire-unexpected-response", f"peer from {ip} got {data[:80]!r}")
                return
        for u, told in seen_as.items():
            key_u = u.split(";")[0]
            if key_u in true_ip and told != true_ip[key_u]:
                res.violate("C10/charged-to-another-address",
                            f"the request {key_u} came from {true_ip[key_u]} but the limiter was told "
                            f"{told!r}", wire_mode=wmode)
                break
        for u in executed:
            if not any(a.split(";")[0] == u for a in admitted_urls):
                res.violate("C10/refused-request-carried-out",
                            f"the upload {u} was carried out although the limiter did not admit it",
                            wire_mode=wmode, admitted=len(admitted_urls))
                break
        exp = {}
        for t, ip in order:
            lvl = model.level(ip, t)
            if model.grey(ip, t):
                return   # grey zone inside a wire run: give up on this run (rare)
            a = lvl >= 1
            model.commit(ip, t, a)
            exp.setdefault(ip, []).append(a)
            decisions.append((t, ip, a, None))
        for ip in exp:
            n_adm = exits.count(ip)
            if not leavers and n_adm != sum(got.get(ip, [])):
                res.violate("C10/wire-unexpected-response",
                            f"address {ip}: the limiter admitted {n_adm} requests but "
                            f"{sum(got.get(ip, []))} peers received the handler's answer")
            if sum(exp[ip]) != n_adm:
                more = n_adm > sum(exp[ip])
                res.violate(
                    "C10/decision-differs/" + ("admitted-with-empty-allowance" if more
                                               else "refused-with-allowance-left"),
                    f"wire mode: address {ip} had {n_adm} requests admitted, exact "
                    f"model admits {sum(exp[ip])}", cap=cap, rate=rate,
                    entries=[(t, i) for t, i in order if i == ip][:20])
        server.close()
        await rl.stop()

    async def race():
        """Requests that land exactly on a clean-up instant (k * 300 s) after more
        than one address has been idle long enough to be evicted: the clean-up
        pass and the burst are interleaved by the loop."""
        rl = RateLimiter(make_config())
        rl_holder["rl"] = rl
        rl.start()
        loop = asyncio.get_running_loop()
        t0 = ch.pick("race.t0", [0.0, 1.0, 10.0, 299.0])
        if t0:
            await asyncio.sleep(t0)
        k = 2 + ch.choose("race.k", min(4, max(1, naddr)) if naddr >= 2 else 1)
        used = (addrs + ["10.9.9.1", "10.9.9.2", "10.9.9.3"])[:max(2, k)]
        known = set()
        for ip in used:
            for _ in range(1 + ch.choose("race.pre", cap)):
                allow, resp = await rl.process_request("gemini://h.sim/", ip, None)
                check_decision(net.now, ip, allow, resp)
        full_at = net.now + (cap / rate if rate else 0.0)
        b = 300.0 * (int(max(net.now + 600.0, full_at) // 300.0) + 1 + ch.choose("race.skip", 2))
        fut = loop.create_future()
        loop.call_at(b, fut.set_result, None)
        await fut
        known = set(getattr(rl, "buckets", {}).keys())
        st["burst"] = True
        for rnd in range(2 + ch.choose("race.rounds", 3)):
            order = list(reversed(used)) if ch.choose("race.order", 2) else list(used)
            for ip in order[:1 + ch.choose("race.n", len(order))]:
                for _ in range(1 + ch.choose("race.b", cap + 1)):
                    allow, resp = await rl.process_request("gemini://h.sim/", ip, None)
                    check_decision(net.now, ip, allow, resp)
            await asyncio.sleep(0)
            known = observe_buckets(known)
        await rl.stop()

    async def flood():
        """Many distinct other addresses between two visits of a drained address:
        the size of the table must not matter to anybody's allowance."""
        rl = RateLimiter(make_config())
        rl_holder["rl"] = rl
        rl.start()
        n_other = ch.pick("flood.n", [50, 1500, 5000, 9000], [2, 2, 3, 1])
        for ip in addrs:
            for _ in range(cap + 1 + ch.choose("flood.pre", 2)):
                allow, resp = await rl.process_request("gemini://h.sim/", ip, None)
                check_decision(net.now, ip, allow, resp)
        step = ch.pick("flood.step", [0.0, 0.0001, 0.01])
        for i in range(n_other):
            other = f"2001:db8:1::{i:x}" if i % 2 else f"10.{2 + i // 60000}.{(i // 250) % 250}.{i % 250}"
            allow, resp = await rl.process_request("gemini://h.sim/", other, None)
            check_decision(net.now, other, allow, resp)
            if i % 500 == 499:
                await asyncio.sleep(step * 500)
        if ch.chance("flood.tick", 0.5):
            # everybody goes idle until the first clean-up tick at which the whole table is
            # evictable; addresses that come LATE in the table (a few late-comers that drained
            # their bucket) then burst in the very instant of that pass, one request per turn
            # of the loop
            late = [f"10.200.0.{k + 1}" for k in range(2)]
            for ip in late:
                for _ in range(cap + 1):
                    allow, resp = await rl.process_request("gemini://h.sim/", ip, None)
                    check_decision(net.now, ip, allow, resp)
            loop = asyncio.get_running_loop()
            full_at = net.now + (cap / rate if rate else 0.0)
            b = 300.0 * (int(max(net.now + 600.0, full_at) // 300.0) + 1)
            fut = loop.create_future()
            loop.call_at(b, fut.set_result, None)
            await fut
            st["burst"] = True
            res.stats["burst_during_a_large_cleanup_pass"] += 1
            for _ in range(cap + 3):
                for ip in late + addrs[:1]:
                    allow, resp = await rl.process_request("gemini://h.sim/", ip, None)
                    check_decision(net.now, ip, allow, resp)
                    await asyncio.sleep(0)
        for rnd in range(2):
            for ip in addrs:
                for _ in range(1 + ch.choose("flood.post", cap + 1)):
                    allow, resp = await rl.process_request("gemini://h.sim/", ip, None)
                    check_decision(net.now, ip, allow, resp)
            await asyncio.sleep(ch.pick("flood.gap", [0.0, 1.0, 30.0]))
        await rl.stop()

    race_mode = (not wire) and ch.chance("race", 0.15)
    flood_mode = (not wire) and not race_mode and ch.chance("flood", 0.02)
    if race_mode:
        res.stats["cleanup_race_scenario"] += 1
    if flood_mode:
        res.stats["many_address_flood"] += 1
    main = wired() if wire else (race() if race_mode else (flood() if flood_mode else direct()))
    status = sim.run(main, horizon=10_000_000.0, max_iterations=400000)
    if sim.error is not None:
        raise sim.error
    if status != "done":
        raise RuntimeError(f"C10 world ended with status {status}")

    # window bound over the admitted history (independent of the model)
    per = {}
    for t, ip, allow, _ in decisions:
        if allow:
            per.setdefault(ip, []).append(t)
    fr = Fraction(rate)
    for ip, ts in per.items():
        best_min = None
        for k, t in enumerate(ts):
            f = Fraction(k) - fr * Fraction(t)
            if best_min is not None and f - best_min + 1 > cap + Fraction(1, 10**6):
                res.violate("C10/window-bound-exceeded",
                            f"address {ip}: admitted requests exceed capacity + refill_rate*T in "
                            f"a window ending at t={t}", cap=cap, rate=rate, times=ts[:40])
                break
            if best_min is None or f < best_min:
                best_min = f

    refusals = sum(1 for d in decisions if not d[2])
    if st["evictions"]:
        res.stats["eviction_happened"] += 1
    if refusals:
        res.stats["refusal"] += 1
    if rate and cap / rate > 600:
        res.stats["slow_refill_run"] += 1
    if st["burst"]:
        res.stats["concurrent_burst"] += 1
    if wire:
        res.stats["wire_mode"] += 1
    if st["leaver"]:
        res.stats["peer_reset_after_admission"] += 1
    if st["titan"]:
        res.stats["uploads_in_wire_mode"] += 1
    if st["goodbye"]:
        res.stats["peer_says_goodbye_with_its_request"] += 1
    if st["fp"]:
        res.stats["requests_with_varying_client_certificate"] += 1
    if st["idle_partial"]:
        res.stats["idle_ge_600_with_partial_bucket"] += 1
    res.stats["decisions"] += len(decisions)
    res.sim_seconds = net.now
    import hashlib
    h = hashlib.sha256(repr((cap, rate, naddr, wire, st["evictions"],
                             [(d[1], d[2]) for d in decisions])).encode()).hexdigest()
    res.signature = h[:16]
    res.digest = hashlib.sha256(repr([(round(d[0], 6), d[1], d[2]) for d in decisions]).encode()
                                ).hexdigest()[:16]
    res.nontrivial = bool(refusals) and (st["evictions"] > 0 or st["burst"] or naddr > 1)
    res.sample = {"capacity": cap, "refill_rate": rate, "addresses": addrs, "wire": wire,
                  "events": len(decisions), "refusals": refusals, "evictions": st["evictions"],
                  "first_decisions": [(round(d[0], 3), d[1], d[2]) for d in decisions[:12]]}
    return res
