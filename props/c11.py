"""C11 - TOFU: nothing is sent to a peer before its certificate is verified.

World: client-wire; scripted TLS peers that read eagerly, lazily or never,
presenting matching, first-use, changed or unreadable certificates; redirect
hops onto hosts whose certificate changed; get (with/without query), upload
(token, 0 B - 200 kB) and delete.

Oracle: (a) on every connection where the pin does not match (or the
certificate is unreadable) the peer decrypted ZERO application bytes over the
whole lifetime of the connection and the caller got an error; (b) on every
TOFU-enabled connection the first application record leaves the client's
socket only after the pin lookup (ordered by the simulator's global event
sequence, not by coarse virtual time).
"""

from __future__ import annotations

import asyncio
import hashlib
import pathlib

from sim import fixtures as fx
from sim.runner import RunResult
from sim.storage import SEAM
from sim.tofuworld import HOSTS, HOST_WEIGHTS, NCA, PORTS, TofuWorld, app_bytes_info, load_cert, read_table, spell

PROPERTY = "C11"
LEVEL = "exploration"
TIERS = {"quick": 2500, "thorough": 200000}
CHUNK = 40
RULE = ("each run is a history of 1-6 client operations (get with/without query, upload with token "
        "and 0 B-200 kB content, delete) interleaved with 'host now presents certificate c', "
        "pre-pinning and redirect rewiring, against peers that read eagerly, lazily or never; "
        "every connection is classified by an abstract pin map (first use / match / changed / "
        "unreadable) and the bytes its peer decrypted plus the order of the pin lookup and the "
        "first application send are checked. distinct = distinct (operation, classification, "
        "reader) vectors; non-trivial = at least one changed or unreadable connection occurred")
PROBES = ["client_has_a_client_certificate", "caller_supplied_ssl_context", "storage_fault_while_client_is_created", "restart_more_than_a_year_later", "client_used_as_context_manager_in_between", "connection_fails_at_accept_first", "ca_validation_on_as_well", "impostor_connection", "unreadable_connection", "impostor_never_reads",
          "impostor_lazy", "upload_to_impostor", "redirect_hop_to_impostor", "ordering_checked",
          "large_upload", "sql_fault_during_operation", "overlapping_operations_one_endpoint"]
COMPONENTS = {
    "real": ["nauyaca.client.session / client.protocol", "nauyaca.security.tofu on a real sqlite "
             "file behind the SQL seam", "asyncio sslproto + OpenSSL"],
    "stub": ["sockets/selector/clock/DNS", "scripted TLS peers decrypting everything they receive"],
}
ASSUMPTIONS = ["TLS 1.3: application records are the encrypted records after the client's "
               "Finished; alerts (close_notify) are not application bytes"]
CERTS = fx.SERVER_CERTS + fx.CLONE_CERTS + fx.EXPIRED_CERTS + fx.BAD_CERTS
CW = [4] * len(fx.SERVER_CERTS) + [4] * len(fx.CLONE_CERTS) + [4] * len(fx.EXPIRED_CERTS) + [1] * len(fx.BAD_CERTS)


def run_one(ch):
    from nauyaca.client.session import GeminiClient
    from nauyaca.security.tofu import TOFUDatabase
    res = RunResult()
    w = TofuWorld(ch, "c11")
    w.cut = ch.choose("cut", 2)
    # a share of the runs: CA validation switched on as well (verify_ssl=True) against
    # certificates that all pass it - only the pin can tell a changed one
    ca_mode = ch.chance("ca_verified", 0.12)
    pool, cw, good = (fx.CA_CERTS, [1] * len(fx.CA_CERTS), fx.CA_CERTS) if ca_mode else \
        (CERTS, CW, fx.SERVER_CERTS)
    certs = {}
    for h in HOSTS:
        for p in PORTS:
            certs[(h, p)] = pool[ch.choose("cert0", len(pool), cw)]
            w.reader_mode[(h, p)] = ch.pick("reader", ["eager", "lazy", "never"], [5, 2, 2])
    w.setup_servers(certs)
    nops = 1 + ch.choose("nops", 6)
    model = {}
    hist = []
    st = {"imp": 0, "unread": 0, "never": 0, "lazy": 0, "upimp": 0, "redirimp": 0, "order": 0,
          "large": 0, "sqlfault": 0, "overlap": 0, "ctx": 0, "failonce": 0, "yearlater": 0, "ctorfault": 0}
    judged = []

    def endpoint(label):
        nh = NCA if ca_mode else len(HOSTS)
        return (HOSTS[ch.choose(label + ".h", nh, HOST_WEIGHTS[:nh])], PORTS[ch.choose(label + ".p", 2, [3, 1])])

    def url_of(key, path):
        h, p = key
        h = spell(ch, h)
        return f"gemini://{h}{'' if p == 1965 else ':%d' % p}{path}"

    # the caller may hand the client a TLS context of its own (TOFU stays in charge of trust)
    own_ctx_kw = {}
    if not ca_mode and ch.chance("own_ssl_context", 0.12):
        import ssl as _ssl
        c_ = _ssl.create_default_context()
        c_.check_hostname = False
        c_.verify_mode = _ssl.CERT_NONE
        c_.minimum_version = _ssl.TLSVersion.TLSv1_2
        own_ctx_kw = {"ssl_context": c_}
        res.stats["caller_supplied_ssl_context"] += 1
    elif ch.chance("own_client_cert", 0.15):
        # the client carries a client certificate (the scripted servers do not ask for it)
        own_ctx_kw = {"client_cert": fx.crt("cli_rsa1"), "client_key": fx.key("cli_rsa1")}
        res.stats["client_has_a_client_certificate"] += 1

    async def main():
        client = GeminiClient(timeout=8.0, tofu_db_path=pathlib.Path(w.db_path), verify_ssl=ca_mode,
                              **own_ctx_kw)
        db = client.tofu_db
        # pre-pin some endpoints to certificates that may differ from what is served
        for _ in range(ch.choose("prepin", 4)):
            key = endpoint("pp")
            c = ch.pick("ppcert", good)
            db.trust(key[0], key[1], load_cert(c))
            model[key] = fx.fp(c)
            hist.append(f"pre-pin {key[0]}:{key[1]} {c}")
        forced_key = None
        for i in range(nops):
            op = ch.choose("op", 9, [5, 5, 2, 4, 2, 2, 2, 1, 1])
            if forced_key is not None:
                op = 0
            if op == 8:
                # more than a year later the program is started again on the same store
                await asyncio.sleep(400 * 86400.0)
                # ... possibly while the store hiccups (locked by another process, I/O error):
                # then there is no client - never one that works without the pins
                SEAM.fired = None
                if ch.chance("ctorfault", 0.4):
                    SEAM.fault_at = SEAM.tick + 1 + ch.choose("ctortick", 3)
                    SEAM.fault_kind = "error:" + ch.pick("ctorerr", ["database is locked", "disk I/O error",
                                                                      "unable to open database file"])
                try:
                    newc = GeminiClient(timeout=8.0, tofu_db_path=pathlib.Path(w.db_path), verify_ssl=ca_mode)
                except Exception as e:  # noqa
                    newc = None
                    hist.append(f"400 days later: creating a new client failed ({type(e).__name__})")
                SEAM.fault_at = None
                if SEAM.fired:
                    st["ctorfault"] += 1
                if newc is not None:
                    client = newc
                    db = client.tofu_db
                    hist.append("400 days later: new client object on the same store"
                                + (" [storage fault while it was created]" if SEAM.fired else ""))
                    if SEAM.fired:
                        if db is None or str(getattr(db, "db_path", w.db_path)) != str(w.db_path):
                            res.violate("C11/client-without-its-pin-store",
                                        "a storage fault while the client was created produced a client "
                                        "that does not use the configured pin store", history=hist[-6:])
                            db = TOFUDatabase(pathlib.Path(w.db_path))
                st["yearlater"] += 1
                continue
            if op == 7:
                # the client object is used as a context manager in between and used on
                hist.append("async with client: pass")
                async with client:
                    await asyncio.sleep(0)
                st["ctx"] += 1
                continue
            if op == 6:
                # the next connection to this endpoint fails before the TLS handshake (reset
                # or close at accept); the operation after that one finds the endpoint up
                key = endpoint("fo")
                w.fail_once[key] = ch.pick("fohow", ["rst", "close"])
                hist.append(f"env: next connection to {key[0]}:{key[1]} is {w.fail_once[key]} at accept")
                forced_key = key
                continue
            if op == 5:
                # two overlapping operations on one endpoint that presents c1 to the first
                # and c2 to the second connection
                key = endpoint("ov")
                if w.redirect.get(key) is not None:
                    continue
                c1 = ch.pick("ov1", good)
                c2 = ch.pick("ov2", good)
                w.servers[key].cert_queue = [c1, c2]
                kinds = [ch.pick("ovk1", ["get", "upload"]), ch.pick("ovk2", ["get", "upload"])]
                hist.append(f"overlapping {kinds[0]}+{kinds[1]} on {key[0]}:{key[1]} presenting {c1},{c2}")
                marks = w.marks()
                seam_mark = len(SEAM.log)

                async def ov(kind, j):
                    try:
                        if kind == "get":
                            await client.get(url_of(key, f"/ov{i}?token=SECRETOV{j}"))
                        else:
                            await client.upload(url_of(key, f"/up/ov{i}.txt"), b"SECRETOV-content" * 50,
                                                token=f"tok-SECRETOV{j}")
                    except Exception:  # noqa
                        pass
                await asyncio.gather(ov(kinds[0], 0), ov(kinds[1], 1))
                w.servers[key].cert_queue = []
                real = read_table(w.db_path)
                pin = real.get(key)
                new = sorted(w.conns_since(marks), key=lambda kp: kp[1].gseq_accept)
                plan = [(key, ("match" if pin == fx.fp(p.cert_presented) else "changed")) for _, p in new]
                st["overlap"] += 1
                judged.append((hist[-1], "get", plan, new, ("err", "overlap"), seam_mark))
                model.clear()
                model.update(real)
                continue
            if op == 3:
                key = endpoint("sw")
                c = pool[ch.choose("swcert", len(pool), cw)]
                cur = w.servers[key].cert
                if cur in fx.CLONE_CERTS and ch.chance("toclone", 0.6):
                    c = fx.CLONE_CERTS[1 - fx.CLONE_CERTS.index(cur)]
                w.servers[key].cert = c
                hist.append(f"env: {key[0]}:{key[1]} now presents {c}")
                continue
            if op == 4:
                key = endpoint("rd")
                tgt = endpoint("rdt")
                if ch.chance("rd_to_impostor", 0.5) and tgt != key and tgt not in model:
                    # make the redirect target an impostor: pin it to another certificate
                    other = ch.pick("rdpin", good)
                    if other != w.servers[tgt].cert:
                        db.trust(tgt[0], tgt[1], load_cert(other))
                        model[tgt] = fx.fp(other)
                        hist.append(f"pre-pin {tgt[0]}:{tgt[1]} {other}")
                if tgt == key or w.redirect.get(tgt) is not None or \
                        any(v == key for v in w.redirect.values()):
                    tgt = None
                w.redirect[key] = tgt
                if tgt is not None:
                    w.redirect_spelling[key] = spell(ch, tgt[0], "rdcase")
                hist.append(f"env: {key[0]}:{key[1]} redirects to {tgt}")
                if tgt is not None and ch.chance("rd_fetch_next", 0.7):
                    forced_key = key
                continue
            key = endpoint("ep")
            if forced_key is not None:
                key = forced_key
                forced_key = None
            kind = ["get", "upload", "delete"][op]
            secret = f"SECRET{i}"
            if kind == "get":
                path = ch.pick("path", [f"/p{i}", f"/p{i}?token={secret}"])
                url = url_of(key, path)
            else:
                url = url_of(key, f"/up/f{i}.txt")
            size = 0
            if kind == "upload":
                size = ch.biased_size("usize", 1, 200000, [1, 100, 16384, 70000, 200000])
                if size > 60000:
                    st["large"] += 1
            hist.append(f"{kind} {url} size={size}")
            marks = w.marks()
            seam_mark = len(SEAM.log)
            # model walk: classify every hop
            plan = []      # (key, class)
            cur = key
            pend = dict(model)
            if w.fail_once.get(key):
                # this connection dies at accept: the call fails; whatever would be found
                # behind it (classified below) must not be contacted with request bytes
                # unless it verifies
                plan.append((key, "reset"))
                st["failonce"] += 1
            while True:
                presented = w.servers[cur].cert
                if presented in fx.BAD_CERTS:
                    plan.append((cur, "unreadable"))
                    break
                fpv = fx.fp(presented)
                pin = pend.get(cur)
                if pin is None:
                    pend[cur] = fpv
                    plan.append((cur, "first"))
                elif pin != fpv:
                    plan.append((cur, "changed"))
                    break
                else:
                    plan.append((cur, "match"))
                tgt = w.redirect.get(cur)
                if kind == "get" and tgt is not None and len(plan) < 3:
                    cur = tgt
                    continue
                break
            failing_first = bool(plan and plan[0][1] == "reset")
            if not failing_first:
                model.clear()
                model.update(pend)
            # storage fault at a drawn SQL tick of this operation (pin lookup, trust, ...)
            SEAM.fired = None
            if ch.chance("sqlfault", 0.2):
                SEAM.fault_at = SEAM.tick + 1 + ch.choose("sqltick", 5)
                SEAM.fault_kind = "error:" + ch.pick("sqlerr", ["database is locked", "disk I/O error"])
            try:
                if kind == "get":
                    r = await client.get(url)
                elif kind == "upload":
                    r = await client.upload(url, (secret.encode() + b"-") * (size // 8 + 1),
                                            token="tok-" + secret)
                else:
                    r = await client.delete(url, token="tok-" + secret)
                got = ("resp", r.status)
            except Exception as e:  # noqa
                got = ("err", type(e).__name__)
            SEAM.fault_at = None
            if failing_first:
                # a retrying implementation may have pinned: continue from the real table
                model.clear()
                model.update(read_table(w.db_path))
            if SEAM.fired is not None:
                st["sqlfault"] += 1
                hist[-1] += f" [sql fault at {SEAM.fired[2][:30]!r}]"
                # pins may or may not have been written: continue from the real table
                model.clear()
                model.update(read_table(w.db_path))
            # what counts as "verified" for the NEXT operation is what the store really holds now
            # (an endpoint that never reads, for instance, never sent the redirect the walk
            # above assumed, so the hop behind it was never contacted nor pinned)
            model.clear()
            model.update(read_table(w.db_path))
            new = w.conns_since(marks)
            judged.append((hist[-1], kind, plan, new, got, seam_mark))

    import os
    old_ca = os.environ.get("SSL_CERT_FILE")
    if ca_mode:
        os.environ["SSL_CERT_FILE"] = fx.crt(fx.CA_FILE_NAME)
        res.stats["ca_validation_on_as_well"] += 1
    try:
        w.run(main, horizon=7 * 400 * 86400.0 + 1e6)
    finally:
        if ca_mode:
            if old_ca is None:
                os.environ.pop("SSL_CERT_FILE", None)
            else:
                os.environ["SSL_CERT_FILE"] = old_ca

    seamlog = list(SEAM.log)
    for desc, kind, plan, new, got, seam_mark in judged:
        # connections of this operation, in order of acceptance
        new = sorted(new, key=lambda kp: kp[1].gseq_accept)
        for hop, (key, peer) in enumerate(new):
            peer.drain_final()
            cls = None
            if hop < len(plan) and plan[hop][0] == key:
                cls = plan[hop][1]
            plain = bytes(peer.rx_plain)
            mode = w.reader_mode.get(key, "eager")
            ctx = dict(step=desc, hop=hop, endpoint=f"{key[0]}:{key[1]}", presented=peer.cert_presented,
                       classification=cls, reader=mode, peer_decrypted=plain[:120],
                       peer_decrypted_len=len(plain), caller_got=got, history=hist[-8:])
            if cls in ("changed", "unreadable"):
                if cls == "changed":
                    st["imp"] += 1
                else:
                    st["unread"] += 1
                if mode == "never":
                    st["never"] += 1
                if mode == "lazy":
                    st["lazy"] += 1
                if kind != "get":
                    st["upimp"] += 1
                if hop > 0:
                    st["redirimp"] += 1
                if plain:
                    what = "request-line" if b"\r\n" in plain[:1100] and len(plain) < 1100 else "request+content"
                    res.violate(f"C11/request-bytes-to-unverified-peer/{cls}/{kind}",
                                f"the peer at {key[0]}:{key[1]} failed pin verification ({cls}) "
                                f"but decrypted {len(plain)} application bytes ({what})", **ctx)
                if got[0] != "err":
                    res.violate(f"C11/no-error-for-unverified-peer/{cls}/{kind}",
                                "verification failed on a hop but the caller got a response", **ctx)
            if cls in ("first", "match", "changed", "unreadable") and peer.rx_cipher:
                off = app_bytes_info(peer, bytes(peer.rx_cipher))
                if off is not None and plain:
                    send_seq = peer.ep.rxp.seq_of_offset(off)
                    lookups = [g for (tick, g, k, sql) in seamlog[seam_mark:]
                               if g > peer.gseq_accept and "known_hosts" in sql
                               and sql.upper().startswith("SELECT")]
                    st["order"] += 1
                    if send_seq is not None and (not lookups or lookups[0] > send_seq):
                        res.violate(f"C11/request-sent-before-pin-lookup/{kind}",
                                    "the first application record left the client's socket before "
                                    "the pin store was consulted for this connection",
                                    send_seq=send_seq, first_lookup_seq=(lookups[0] if lookups else None),
                                    **ctx)

    for probe, k in {"impostor_connection": "imp", "unreadable_connection": "unread",
                     "impostor_never_reads": "never", "impostor_lazy": "lazy",
                     "upload_to_impostor": "upimp", "redirect_hop_to_impostor": "redirimp",
                     "ordering_checked": "order", "large_upload": "large",
                     "sql_fault_during_operation": "sqlfault",
                     "overlapping_operations_one_endpoint": "overlap",
                     "client_used_as_context_manager_in_between": "ctx",
                     "connection_fails_at_accept_first": "failonce",
                     "restart_more_than_a_year_later": "yearlater",
                     "storage_fault_while_client_is_created": "ctorfault"}.items():
        if st[k]:
            res.stats[probe] += 1
    res.stats["operations"] += len(judged)
    res.sim_seconds = w.net.now
    res.signature = hashlib.sha256(repr([(k, [c for _, c in p], g[0]) for _, k, p, _, g, _ in judged]
                                        ).encode()).hexdigest()[:16]
    res.digest = w.sim.digest()
    res.nontrivial = bool(st["imp"] or st["unread"])
    res.sample = {"history": hist[:10]}
    return res
