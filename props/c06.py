"""C06 - responses arrive complete and unaltered, any size, both TLS backends.

The same generated body is served once through the standard-library TLS
backend and once through the PyOpenSSL backend (bare real protocol classes with
a spy-wrapped scripted or real static handler, or the whole start_server()
coroutine where `require_client_cert` selects the backend) to a raw TLS peer
that reads eagerly, slowly or in bursts behind socket buffers of various sizes
while the network cuts the ciphertext at arbitrary offsets.

Oracle: the plaintext the peer decrypts until end of stream equals
header + body exactly as the handler produced it, then end of stream; the two
backends' streams are identical.
"""

from __future__ import annotations

import asyncio
import hashlib
import os
import pathlib

from sim import fixtures as fx
from sim import serverwire as sw
from sim.net import DrawnPolicy, WholePolicy, raw_connect
from sim.peers import RawPeer
from sim.runner import RunResult
from sim.world import Sim, fresh_dir

PROPERTY = "C06"
LEVEL = "exploration"
TIERS = {"quick": 12000, "thorough": 150000}
CHUNK = 20
RUN_CAP_S = 120
RULE = ("each run draws a body length (dense around 0, 1, 2^14+-2, 2^15, 2^16+-2, the 64 KiB "
        "high-water mark, multiples of 16 KiB; tail up to 1 MiB quick / 8 MiB thorough), content "
        "(random bytes, multi-byte UTF-8 text, str or bytes), its source (scripted handler, real "
        "StaticFileHandler, or start_server()), a reader (eager / slow / bursty), socket buffer "
        "sizes and ciphertext cuts, and serves it over BOTH TLS backends. distinct = distinct "
        "(length, reader, buffer, cut-signature); non-trivial = body >= 1 byte and the reader or "
        "the network was not the default")
PROBES = ["file_not_valid_utf8", "client_speaks_tls12", "file_of_exactly_max_file_size", "client_resumes_tls_session", "tls_session_actually_resumed", "request_in_two_records_with_the_handshake", "stray_bytes_while_handler_pending", "handler_finishes_after_request_timeout", "file_with_byte_order_mark", "status_21_to_29", "backpressure_pause_writing", "body_ge_16k", "body_ge_64k", "body_ge_6MiB", "half_closing_reader", "nauyaca_client_as_reader", "slow_reader", "bursty_reader",
          "ciphertext_cut", "static_file", "start_server", "very_slow_reader_over_30s"]
COMPONENTS = {
    "real": ["nauyaca.server.protocol._send_response", "nauyaca.server.tls_protocol (TLS pump)",
             "nauyaca.server.server.start_server backend selection",
             "nauyaca.server.handler.StaticFileHandler", "asyncio transports + sslproto", "OpenSSL"],
    "stub": ["sockets/selector/clock", "raw TLS reader peer", "scripted body handler"],
}
ASSUMPTIONS = ["readers slower than body/25 s are a separate, rare population (asyncio's 30 s SSL "
               "shutdown timer on the stdlib backend)"]
HOST = "srv.sim"

SPECIALS = [0, 1, 2, 100, 16383, 16384, 16385, 16400, 32768, 49152, 65535, 65536, 65537,
            65536 + 16384, 131072, 262144]


def make_body(ch, n):
    kind = ch.choose("content", 4, [3, 3, 2, 2])
    if kind == 0:
        raw = ch.bytes_("bytes", n)
        return raw, raw, "application/octet-stream"
    if kind == 1:
        unit = "añ€𝄞\n"
        s = (unit * (n // len(unit.encode()) + 1))
        b = s.encode()[:n]
        s = b.decode("utf-8", "ignore")
        return s, s.encode(), ch.pick("textmeta", ["text/plain; charset=utf-8", "text/plain",
                                                   "text/plain; charset=iso-8859-1",
                                                   "text/gemini; charset=utf-16; lang=en",
                                                   "text/plain; charset=x-unknown-9",
                                                   # blanks are part of the meta: sent as they are
                                                   "text/plain;  format=flowed", "text/plain; name=a\tb",
                                                   "text/plain; title=x\u00a0y "],
                                      [4, 2, 1, 1, 1, 1, 1, 1])
    if kind == 2:
        s = ("line %d of text\n" * 1) % 7
        s = (s * (n // len(s) + 1))[:n]
        return s, s.encode(), "text/gemini"
    raw = bytes((i * 7 + (i >> 8)) & 0xFF for i in range(min(n, 4096))) * (n // 4096 + 1)
    raw = raw[:n]
    return raw, raw, "image/png"


def serve_once(ch, backend, cfg, scratch):
    from sim import world as _world
    _world.TICKETS["allow"] = bool(cfg.get("resume"))
    try:
        return _serve_once(ch, backend, cfg, scratch)
    finally:
        _world.TICKETS["allow"] = False


def _serve_once(ch, backend, cfg, scratch):
    from nauyaca.protocol.response import GeminiResponse
    sim = Sim(ch)
    net = sim.net
    captured = {}
    body_obj, body_bytes, mime = cfg["body"]
    out = {}
    paused = {"n": 0}

    async def main():
        srv_task = None
        server = None
        if cfg["source"] == "start_server":
            from nauyaca.server.config import ServerConfig
            from nauyaca.server.server import start_server
            root = pathlib.Path(scratch, "root")
            root.mkdir(exist_ok=True)
            (root / "f.txt").write_bytes(body_bytes)
            c = ServerConfig(host=HOST, port=1965, document_root=root,
                             certfile=pathlib.Path(fx.crt("rsa1")), keyfile=pathlib.Path(fx.key("rsa1")),
                             require_client_cert=(backend == "pyopenssl"),
                             max_file_size=cfg.get("max_file_size") or 64 * 1024 * 1024)
            srv_task = asyncio.ensure_future(start_server(c, log_level="CRITICAL"))
            await asyncio.sleep(0.001)
            if srv_task.done():
                srv_task.result()
            captured["resp"] = GeminiResponse(status=20, meta="text/plain",
                                              body=body_bytes.decode("utf-8"))
            url = f"gemini://{HOST}/f.txt"
        else:
            if cfg["source"] == "static":
                from nauyaca.server.handler import StaticFileHandler
                root = pathlib.Path(scratch, "root")
                root.mkdir(exist_ok=True)
                (root / "f.gmi").write_bytes(body_bytes)
                real = StaticFileHandler(root, max_file_size=cfg.get("max_file_size") or 64 * 1024 * 1024)

                def handler(req):
                    r = real.handle(req)
                    captured["resp"] = r
                    return r
                url = f"gemini://{HOST}/f.gmi"
            else:
                def handler(req):
                    r = GeminiResponse(status=cfg["status"], meta=mime, body=body_obj)
                    captured["resp"] = r
                    if cfg["async_handler"]:
                        async def later():
                            await asyncio.sleep(cfg["hdelay"])
                            return r
                        return later()
                    return r
                url = f"gemini://{HOST}/body"
            server = await sw.start_protocol_server(sim, backend, handler)
        if cfg["reader"] == "client":
            # the repo's own client as the reader (cap set a few bytes above the body)
            from nauyaca.client import protocol as cproto
            from nauyaca.client.session import GeminiClient
            old_cap = cproto.MAX_RESPONSE_BODY_SIZE
            cproto.MAX_RESPONSE_BODY_SIZE = len(body_bytes) + cfg["cap_slack"]
            try:
                cl = GeminiClient(timeout=60.0, trust_on_first_use=False)
                try:
                    r = await cl.get(url)
                    b = r.body if r.body is not None else b""
                    if isinstance(b, str):
                        b = b.encode("utf-8")
                    out["client_rx"] = f"{r.status} {r.meta}\r\n".encode() + b
                except Exception as e:  # noqa
                    out["client_rx"] = b""
                    out["client_err"] = repr(e)[:200]
            finally:
                cproto.MAX_RESPONSE_BODY_SIZE = old_cap
            if server is not None:
                server.close()
            if srv_task is not None:
                srv_task.cancel()
            return
        session = None
        if cfg.get("resume") and cfg["source"] != "handler" and len(body_bytes) >= 2:
            fname = "f.txt" if cfg["source"] == "start_server" else "f.gmi"
            first = body_bytes.replace(b"l", b"L").replace(b"u", b"U")
            if len(first) == len(body_bytes) and first != body_bytes:
                (pathlib.Path(scratch, "root") / fname).write_bytes(first)
        if cfg.get("resume"):
            # an earlier, ordinary connection of the same client; the judged connection then
            # offers that TLS session for resumption
            ep0 = raw_connect(net, HOST, 1965, c2s=WholePolicy(0.001), s2c=WholePolicy(0.001))
            peer0 = RawPeer(net, ep0, [("send", url.encode() + b"\r\n")], tls_ctx=fx.client_ctx(None, bool(cfg.get("client_tls12"))),
                            name="earlier")
            for _ in range(400):
                await asyncio.sleep(0.25)
                if peer0.eof_seen():
                    break
            peer0.drain_final()
            if cfg["source"] != "handler":
                # the file is rewritten in place between the two fetches: other content, same
                # length, (almost certainly) the same second
                fname = "f.txt" if cfg["source"] == "start_server" else "f.gmi"
                (pathlib.Path(scratch, "root") / fname).write_bytes(body_bytes)
            session = peer0.eng.obj.session if peer0.eng and peer0.eng.hs_done else None
            out["first_rx_len"] = len(peer0.rx_plain)
        pol = DrawnPolicy(ch, "s2c", cfg["s2c_mode"], latency=0.001,
                          delays=[0.001, 0.0, 0.003], max_cuts=3)
        ep = raw_connect(net, HOST, 1965, c2s=WholePolicy(0.001), s2c=pol,
                         cap_s2c=cfg["cap_s2c"])
        kw = {}
        if cfg["reader"] == "slow":
            kw = dict(read_rate=cfg["read_rate"], read_interval=cfg["read_interval"])
        elif cfg["reader"] == "bursty":
            kw = dict(read_pause_until=cfg["pause_until"])
        pscript = [("send", url.encode() + b"\r\n")]
        if cfg.get("split_request") == 2:
            pscript = [("send", url.encode() + b"\r"), ("sleep", 0.01), ("send", b"\n")]
        elif cfg.get("split_request"):
            pscript = [("send", url.encode()), ("send", b"\r\n")]
        if cfg["idle_before_request"]:
            pscript = [("sleep", cfg["idle_before_request"])] + pscript
        if cfg.get("stray"):
            # bytes after the request line are ignored, however many and whenever they come
            pscript += [("sleep", 0.01), ("send", b"s" * cfg["stray"])]
        if cfg.get("early_close"):
            # the reader says goodbye (close_notify, FIN) right behind its request and
            # then only reads
            pscript.append(("close",))
        peer = RawPeer(net, ep, pscript, tls_ctx=fx.client_ctx(None, bool(cfg.get("client_tls12"))), name="reader",
                       coalesce_first=(cfg.get("split_request") == 1), tls_session=session, **kw)
        t_end = cfg["deadline"]
        while net.now < t_end:
            await asyncio.sleep(0.25)
            if peer.eof_seen():
                break
        await asyncio.sleep(0.5)
        peer.drain_final()
        out["peer"] = peer
        out["resumed"] = bool(session is not None and peer.eng and peer.eng.hs_done
                              and peer.eng.obj.session_reused)
        out["s2c_deliveries"] = ep.rxp.deliveries
        if server is not None:
            server.close()
        if srv_task is not None:
            srv_task.cancel()

    status = sim.run(main(), horizon=cfg["deadline"] + 100.0, max_iterations=3_000_000)
    if sim.error is not None:
        raise sim.error
    if status != "done":
        raise RuntimeError(f"C06 world ended with status {status}")
    if cfg["reader"] == "client":
        return {"rx": out.get("client_rx", b""), "eof": True, "resp": captured.get("resp"),
                "tls_error": out.get("client_err"), "now": net.now, "sig": (sim.signature() if not cfg.get("resume") else "resume"),
                "digest": sim.digest(), "deliveries": 0, "exc": sim.loop.exceptions[:3]}
    peer = out["peer"]
    return {"resumed": out.get("resumed"), "rx": bytes(peer.rx_plain), "eof": peer.eof_seen(), "resp": captured.get("resp"),
            "tls_error": peer.tls_error, "now": net.now, "sig": (sim.signature() if not cfg.get("resume") else "resume"),
            "digest": (sim.digest() if not cfg.get("resume") else _coarse(peer)), "deliveries": out["s2c_deliveries"],
            "exc": sim.loop.exceptions[:3]}


def _coarse(peer):
    """Digest for runs with session tickets switched on: ticket lengths (and with them
    every byte offset, cut position and reader schedule) are OpenSSL's randomness, so only
    what the client got is a function of the tape."""
    return hashlib.sha256(bytes(peer.rx_plain) + (b"E" if peer.eof_seen() else b"-")).hexdigest()[:16]


def hdelay_ok(cfg):
    return True


def run_one(ch):
    res = RunResult()
    big = 8 * 1024 * 1024 if os.environ.get("VERIF_TIER_EFFECTIVE") == "thorough" else 1024 * 1024
    n = ch.biased_size("len", 0, big, SPECIALS)
    if ch.chance("huge", 0.008):
        # a few multi-megabyte bodies in every tier: shortfalls that only accumulate
        # over hundreds of TLS records (per-record overhead, flush limits)
        n = ch.pick("hugelen", [6 << 20, (6 << 20) + 12345, 8 << 20, 12 << 20, 16 << 20])
        res.stats["body_ge_6MiB"] += 1
    source = ch.pick("source", ["handler", "static", "start_server"], [6, 2, 2])
    damaged_file = False
    body = make_body(ch, n)
    if source != "handler":
        # static files are read as UTF-8 text: use LF-only text content
        phase = ch.choose("phase", 12)
        s = ("x" * phase + "€uro line\n" * (n // 11 + 1)).encode()[:n].decode("utf-8", "ignore")
        mark = ch.choose("bom", 4, [8, 1, 1, 0])
        if mark and n >= 3:
            # a file that starts with (or merely contains) U+FEFF: served as it is on disk
            s = ("\ufeff" + s[1:]) if mark == 1 else (s[:1] + "\ufeff" + s[2:])
            s = s.encode()[:n].decode("utf-8", "ignore")
            res.stats["file_with_byte_order_mark"] += 1
        body = (s, s.encode(), "text/gemini" if source == "static" else "text/plain")
        n = len(body[1])
        if source == "static" and n >= 4 and ch.chance("badutf8", 0.08):
            # a file that is not valid UTF-8 (one damaged byte, Latin-1 text): an error answer is
            # fine, a 2x answer whose bytes are not the file's is not
            b = bytearray(body[1])
            b[ch.choose("badutf8.at", len(b))] = 0xFF
            body = (s, bytes(b), body[2])
            damaged_file = True
            res.stats["file_not_valid_utf8"] += 1
    reader = ch.pick("reader", ["eager", "slow", "bursty", "client"], [5, 3, 2, 1])
    if reader == "client" and n > (2 << 20):
        reader = "eager"
    if reader == "client" and "charset=" in body[2] and "utf-8" not in body[2]:
        # the nauyaca client decodes by the declared charset: only honest labels for it
        body = (body[0], body[1], "text/plain; charset=utf-8")
    cap = ch.pick("cap", [65536, 1024, 4096, 16384, 262144, 1048576])
    very_slow = False
    cfg = {"body": body, "source": source, "reader": reader, "cap_s2c": cap,
           "s2c_mode": ch.choose("s2cmode", 2, [3, 2]),
           "async_handler": bool(ch.choose("async", 2)),
           "cap_slack": ch.pick("capslack", [0, 1, 30, 5000]),
           "status": ch.pick("status", [20, 21, 25, 29], [12, 1, 1, 1]) if source == "handler" else 20,
           "deadline": 60.0}
    # the link itself (cap bytes per ~3 ms round) must not be what makes the transfer
    # take longer than asyncio's 30 s TLS shutdown timer (that is the slow-reader
    # population's job, see the known finding)
    cap = cfg["cap_s2c"] = max(cap, int(n * 0.003 / 10) + 1)
    if n >= (4 << 20):
        cap = cfg["cap_s2c"] = max(cap, 262144)
        cfg["s2c_mode"] = 0
    total = n + 64
    if reader == "slow":
        # finish within ~20 s unless the rare very-slow population is drawn
        very_slow = ch.chance("veryslow", 0.03) and n > 20000
        secs = ch.pick("drain_s", [0.5, 2.0, 8.0, 20.0]) if not very_slow else 45.0
        interval = 0.05
        rate = max(64, int(total / secs * interval) + 1)
        if cap < rate:
            # the socket buffer, not the reader, would bound the throughput
            cap = cfg["cap_s2c"] = rate
        cfg.update(read_rate=rate, read_interval=interval)
        cfg["deadline"] = secs * 2 + 60.0
    elif reader == "bursty":
        cfg["pause_until"] = ch.pick("pause", [0.5, 3.0, 12.0])
        cfg["deadline"] = 80.0

    # a handler slower than the 30 s request timeout, or a client that idles 27 s before it
    # sends its request to a 4 s handler: the complete request is still answered with the body
    cfg["hdelay"] = 0.01
    cfg["idle_before_request"] = 0.0
    if source != "handler" and n > 0 and ch.chance("exact_limit", 0.15):
        # a file of exactly the configured maximum size is still served
        cfg["max_file_size"] = n
        res.stats["file_of_exactly_max_file_size"] += 1
    if reader != "client" and n <= 300000 and hdelay_ok(cfg) and ch.chance("resume", 0.12):
        # second connection of a client that resumes its TLS session
        cfg["resume"] = True
        cfg["s2c_mode"] = 0       # no size-dependent draws: ticket lengths are not a function of the tape
        cfg["deadline"] += 100.0
        res.stats["client_resumes_tls_session"] += 1
    if reader != "client" and ch.chance("client_tls12", 0.12):
        # a client that negotiates TLS 1.2 (the minimum the servers accept)
        cfg["client_tls12"] = True
        res.stats["client_speaks_tls12"] += 1
    if reader != "client" and ch.chance("split_request", 0.15):
        # URL and CRLF as two TLS records in the flight of the client's Finished
        cfg["split_request"] = 1 + ch.choose("split_at_crlf", 2)     # 2: CR and LF in different reads
        res.stats["request_in_two_records_with_the_handshake"] += 1
    if source == "handler" and cfg["async_handler"] and reader != "client":
        slow = ch.choose("slowhandler", 3, [30, 1, 1])
        if slow == 1:
            cfg["hdelay"] = 31.0
        elif slow == 2:
            cfg["hdelay"] = 4.0
            cfg["idle_before_request"] = 27.0
        if slow:
            cfg["deadline"] += 40.0
            res.stats["handler_finishes_after_request_timeout"] += 1
    if source == "handler" and cfg["async_handler"] and reader == "eager" and \
            cfg["hdelay"] < 1.0 and ch.chance("stray", 0.15):
        # stray bytes arrive while the (asynchronous) handler is still working
        cfg["stray"] = ch.pick("strayn", [700, 1500, 5000])
        cfg["hdelay"] = 0.3
        res.stats["stray_bytes_while_handler_pending"] += 1
    if reader == "eager" and n <= 200000 and (source == "static" or
                                              (source == "handler" and not cfg["async_handler"])) \
            and ch.chance("early_close", 0.25):
        # only where the answer cannot depend on timing: synchronous handler, no chain
        cfg["early_close"] = True
        res.stats["half_closing_reader"] += 1
    outs = {}
    for backend in ("stdlib", "pyopenssl"):
        outs[backend] = serve_once(ch, backend, cfg, fresh_dir("c06"))

    ctx = dict(body_len=n, status=cfg["status"], source=source, reader=reader, cap_s2c=cap, body_type=type(body[0]).__name__,
               read_rate=cfg.get("read_rate"), pause_until=cfg.get("pause_until"),
               very_slow=very_slow)
    for backend, o in outs.items():
        resp = o["resp"]
        if resp is None:
            res.violate(f"C06/no-response/{backend}", "handler was never invoked", **ctx)
            continue
        exp = sw.expected_wire(resp)
        if damaged_file and exp[:1] != b"2":
            pass        # refused with an error: nothing of the file is misrepresented
        elif source == "static" and (exp.split(b"\r\n", 1)[-1] != body[1] or exp[:3] != b"20 ") and body[1]:
            # the file server is the handler here: what it hands over must be the file
            res.violate(f"C06/altered/static-file-differs-from-disk/{backend}",
                        f"StaticFileHandler produced {len(exp.split(b'\r\n', 1)[-1])} body bytes for a "
                        f"file of {len(body[1])} bytes", head=exp[:60], file_head=body[1][:40], **ctx)
            continue
        rx = o["rx"]
        key_extra = "/reader-slower-than-30s" if very_slow else ""
        if rx != exp:
            if len(rx) < len(exp) and exp.startswith(rx):
                res.violate(f"C06/truncated{key_extra}/{backend}",
                            f"client received {len(rx)} of {len(exp)} bytes (header+body), then "
                            f"end of stream", received_len=len(rx), expected_len=len(exp),
                            tls_error=repr(o["tls_error"]), loop_exceptions=o["exc"], **ctx)
            else:
                d = next((i for i, (a, b) in enumerate(zip(rx, exp)) if a != b), min(len(rx), len(exp)))
                res.violate(f"C06/altered/{backend}",
                            f"stream differs from header+body at offset {d} "
                            f"(received {len(rx)} bytes, expected {len(exp)})",
                            received=rx[max(0, d - 20):d + 40], expected=exp[max(0, d - 20):d + 40], **ctx)
        elif not o["eof"]:
            res.violate(f"C06/no-end-of-stream/{backend}",
                        "complete body received but the stream was never ended", **ctx)
    if outs["stdlib"]["rx"] != outs["pyopenssl"]["rx"] and not res.violations:
        res.violate("C06/backends-differ", "the two TLS backends delivered different streams", **ctx)

    if n >= 16384:
        res.stats["body_ge_16k"] += 1
    if n >= 65536:
        res.stats["body_ge_64k"] += 1
    if reader == "slow":
        res.stats["slow_reader"] += 1
    if reader == "bursty":
        res.stats["bursty_reader"] += 1
    if reader == "client":
        res.stats["nauyaca_client_as_reader"] += 1
    if very_slow:
        res.stats["very_slow_reader_over_30s"] += 1
    if cfg["s2c_mode"]:
        res.stats["ciphertext_cut"] += 1
    if cfg["status"] != 20:
        res.stats["status_21_to_29"] += 1
    if any(o.get("resumed") for o in outs.values()):
        res.stats["tls_session_actually_resumed"] += 1
    if source == "static":
        res.stats["static_file"] += 1
    if source == "start_server":
        res.stats["start_server"] += 1
    if n + 100 > cap:
        res.stats["backpressure_pause_writing"] += 1
    res.stats["bytes_served"] += 2 * n
    res.sim_seconds = outs["stdlib"]["now"] + outs["pyopenssl"]["now"]
    res.signature = hashlib.sha256(repr((n, reader, cap, outs["stdlib"]["sig"],
                                         outs["pyopenssl"]["sig"])).encode()).hexdigest()[:16]
    res.digest = hashlib.sha256((outs["stdlib"]["digest"] + outs["pyopenssl"]["digest"]).encode()
                                ).hexdigest()[:16]
    res.nontrivial = n >= 1 and (reader != "eager" or cfg["s2c_mode"] != 0 or cap != 65536)
    res.sample = ctx
    return res
