"""C01 - exactly one well-formed Gemini response per connection.

World: server-wire in three transport modes; the server is assembled either
from the bare real protocol classes with scripted spy handler / middleware /
upload handler, or through the whole real start_server() coroutine (single
document root, or locations with and without a catch-all).  The other end is a
scripted raw peer that segments, delays, stalls, half-closes, resets and reads
slowly.

Oracle (per connection, from what the PEER received): R1 shape, R2 body only
for 2x / equality with the handler's own response, R3 exactly one response
then end of stream when the peer stayed connected, R4 nothing-or-one when the
peer went away first.
"""

from __future__ import annotations

import asyncio
import hashlib
import os
import pathlib

from sim import fixtures as fx
from sim import serverwire as sw
from sim.net import DrawnPolicy, WholePolicy, raw_connect
from sim.peers import RawPeer
from sim.runner import RunResult
from sim.world import Sim, fresh_dir

PROPERTY = "C01"
LEVEL = "exploration"
TIERS = {"quick": 15000, "thorough": 1200000}
CHUNK = 60
RULE = ("each run assembles a server (bare protocol + scripted handler/middleware/upload handler "
        "in plain/stdlib-TLS/PyOpenSSL mode, or the real start_server() with a generated document "
        "root or locations) and drives 1-3 connections whose request bytes come from a grammar "
        "with corruptions (other schemes, missing host, user-info, fragment, bare CR/LF, control "
        "bytes, invalid UTF-8, lengths around 1024, Titan sizes) while the peer segments, delays, "
        "stalls (timeout path), half-closes, resets and reads slowly behind a small socket buffer; "
        "handler outcomes: every status class, str/bytes bodies, ill-formed responses, exceptions "
        "with CR/LF/non-ASCII/5 kB text, sync or delayed. distinct = distinct time-stripped event "
        "signatures; non-trivial = a fault, a cut or a non-default handler outcome occurred")
PROBES = ["ipv6_peers", "real_certificate_auth_component", "timeout_path", "peer_fin_before_response", "peer_rst_mid_response", "slow_reader",
          "handler_raised", "handler_illformed", "middleware_denied", "oversize_line",
          "start_server_root", "start_server_locations", "listing_served", "titan_upload_path",
          "delayed_handler_gt_timeout", "default_404_reached",
          "late_completion_after_timeout", "proxy_location_scripted_upstream"]
COMPONENTS = {
    "real": ["nauyaca.server.protocol / tls_protocol / server.start_server / router / handler / "
             "content.gemtext / middleware / proxy", "asyncio selector transports + sslproto",
             "OpenSSL (ssl, pyOpenSSL)", "filesystem"],
    "stub": ["sockets/selector/clock/DNS", "scripted raw client peers", "scripted spy handlers and "
             "middleware in bare mode"],
}
ASSUMPTIONS = ["close() with unread client data is modelled as FIN (no kernel RST)",
               "handshake-phase stalls are C15's subject; C01 peers complete the TLS handshake"]

HOST = "srv.sim"
LONG = "x" * 5000


# ---------------------------------------------------------------------------
# generators
# ---------------------------------------------------------------------------

def gen_request(ch, tag, upload_enabled, paths=None):
    """Client byte stream for one connection.  Returns (stream, info)."""
    k = ch.choose("req", 12, [10, 3, 2, 2, 2, 2, 3, 3, 3, 2, 2, 2])
    info = {"kind": k, "titan": False}
    if k == 0:
        p = ch.pick("path", paths) if paths else f"/c{tag}"
        q = ch.pick("query", ["", "?q=1", "?a=b%20c"])
        s = f"gemini://{HOST}{p}{q}".encode() + b"\r\n"
    elif k == 1:
        s = ch.pick("scheme", [b"http://srv.sim/\r\n", b"GEMINI://srv.sim/\r\n", b"//srv.sim/\r\n",
                               b"gopher://srv.sim/1\r\n", b"srv.sim/\r\n", b"\r\n", b" \r\n"])
    elif k == 2:
        s = ch.pick("struct", [b"gemini:///nohost\r\n", b"gemini://u:p@srv.sim/\r\n",
                               b"gemini://u@srv.sim/\r\n", b"gemini://srv.sim/#frag\r\n",
                               b"gemini://srv.sim:99999/\r\n", b"gemini://srv.sim:abc/\r\n",
                               b"gemini://[::1/\r\n"])
    elif k == 3:   # bare CR / LF / control bytes inside the line
        mid = ch.pick("ctl", [b"a\nb", b"a\rb", b"\n", b"a\x00b", b"a\tb", b"a\x7fb", b"\x1b[31m",
                              b"x\n20 text/plain", b"\r", b"a\n\nb"])
        host = ch.pick("ctlhost", [b"gemini://srv.sim/", b"http://", b"gemini://", b"gemini://u@h/"])
        s = host + mid + b"\r\n"
    elif k == 4:   # invalid UTF-8
        s = b"gemini://srv.sim/" + ch.pick("bad8", [b"\xff", b"\xc3", b"\xed\xa0\x80", b"\xfe\xff"]) + b"\r\n"
    elif k == 5:   # lengths around the limit
        n = ch.pick("len", [1000, 1020, 1021, 1022, 1023, 1024, 1025, 1026, 1040, 3000])
        pre = ch.pick("lenpre", [b"gemini://srv.sim/", b"http://srv.sim/", b"gemini://"])
        s = pre + b"a" * max(0, n - len(pre))
        if ch.chance("lencrlf", 0.6):
            s += b"\r\n"
        else:
            info["nocrlf"] = True
    elif k == 6:   # titan
        info["titan"] = True
        size = ch.biased_size("tsize", 0, 3000, [0, 1, 2, 100, 1024])
        sent = size
        v = ch.choose("tvar", 4, [5, 2, 2, 1])
        if v == 1 and size > 0:
            sent = size - 1 - ch.choose("tshort", min(size, 4))
            sent = max(0, sent)
        elif v == 2:
            sent = size + 1 + ch.choose("tlong", 200)
        content = ch.bytes_("tcontent", sent)
        tok = ch.pick("ttok", ["", ";token=sekrit", ";token=wrong"])
        s = f"titan://{HOST}/up/t{tag}.txt;size={size};mime=text/plain{tok}".encode() + b"\r\n" + content
        info["tsize"] = size
        info["tsent"] = sent
    elif k == 7:   # malformed titan
        info["titan"] = True
        s = ch.pick("tbad", [b"titan://srv.sim/up/a\r\n", b"titan://srv.sim/up/a;size=abc\r\n",
                             b"titan://srv.sim/up/a;size=-1\r\n", b"titan://srv.sim/up/a;mime=x\r\n",
                             b"titan://;size=1\r\nx", b"titan://srv.sim/up/a\nb;size=1\r\nx",
                             b"titan://srv.sim/up/a;size=1;x=\n\r\ny"])
    elif k == 8:   # no CRLF at all, short (stall -> timeout)
        s = ch.pick("partial", [b"", b"g", b"gemini://srv.sim/", b"gemini://srv.sim/\r", b"gemini://srv.sim/\n"])
        info["nocrlf"] = True
    elif k == 9:   # valid + trailing garbage
        s = f"gemini://{HOST}/c{tag}".encode() + b"\r\n" + ch.bytes_("garb", 1 + ch.choose("garbn", 2000))
    elif k == 10:  # non-ascii / percent
        s = ch.pick("uni", ["gemini://srv.sim/ñ.gmi", "gemini://srv.sim/%C3%B1.gmi",
                            "gemini://srv.sim/with space", "gemini://srv.sim/%00",
                            "gemini://srv.sim/‮", "gemini:///" + "é" * 505,
                            "http://x/" + "日" * 335, "gemini://u@h/" + "ü" * 500,
                            "gemini://srv.sim/" + "é" * 500]).encode() + b"\r\n"
    else:          # oversize stream without CRLF, sent in several pieces
        s = b"gemini://srv.sim/" + b"b" * (1100 + ch.choose("over", 3000))
        info["nocrlf"] = True
    info["stream"] = s
    return s, info


def classify(sent: bytes):
    """What the server must react to, given the bytes the peer really sent."""
    i = sent.find(b"\r\n")
    if i >= 0 and (i + 2 <= 1024 or True):
        return "line"
    if len(sent) > 1024:
        return "oversize"
    return "none"


RESP_POOL = None


def handler_plans():
    from nauyaca.protocol.response import GeminiResponse as R
    good = [
        R(status=20, meta="text/gemini", body="# hi\nhello\n"),
        R(status=20, meta="text/plain; charset=utf-8", body="ünïcödé ✓ " * 50),
        R(status=20, meta="application/octet-stream", body=bytes(range(256)) * 8),
        R(status=20, meta="text/plain", body="B" * 20000),
        R(status=20, meta="text/gemini", body=""),
        R(status=20, meta="text/gemini", body=None),
        R(status=20, meta="text/plain", body="51 Not found\r\nfake second header\r\n"),
        R(status=10, meta="Enter query"),
        R(status=11, meta="Password"),
        R(status=30, meta="gemini://srv.sim/other"),
        R(status=31, meta="gemini://elsewhere.sim/"),
        R(status=40, meta="temporary"),
        R(status=44, meta="Slow down"),
        R(status=51, meta="Not found"),
        R(status=59, meta="Bad request"),
        R(status=60, meta="Certificate required"),
        R(status=69, meta="edge"),
        R(status=20, meta="text/plain", body=b""),
        R(status=25, meta="text/x-odd", body="odd 2x"),
        R(status=51, meta="ünï ✓ meta"),
        R(status=20, meta="text/plain; a=vt\x0bff\x0cfs\x1c; b=nel\u0085ls\u2028ps\u2029", body="exotic separators"),
        R(status=10, meta="prompt ends with a separator\u2028"),
        # an exact multiple of 64 KiB above 64 KiB (chunked-write remainders)
        R(status=20, meta="application/octet-stream", body=bytes(range(256)) * 512),
    ]
    bad = [
        R(status=51, meta="text/gemini", body="# Error 51\n\nnot found body\n"),
        R(status=30, meta="gemini://srv.sim/x", body=b"redirect with body"),
        R(status=20, meta="text/plain\r\n51 injected", body="x"),
        R(status=40, meta="line1\nline2"),
        R(status=40, meta="cr\rhere"),
        R(status=50, meta="m" * 2000),
        R(status=20, meta="text/plain; " + "p" * 1100, body="long meta"),
        R(status=7, meta="low"),
        R(status=99, meta="high"),
        R(status=200, meta="three digits", body="x"),
        R(status=20, meta="text/plain", body="lone surrogate \udcff here"),
        R(status=20, meta="text/\udc80plain", body="meta surrogate"),
        R(status=50, meta="é" * 900),
        R(status=20, meta="text/plain; note=" + "ü" * 700, body="non-ascii long meta"),
        R(status=40, meta="日本語" * 400),
        None,
        "20 text/plain\r\nnot a response object",
    ]
    excs = [
        ValueError("boom"), RuntimeError("multi\nline\r\nerror"), KeyError("k"),
        Exception(LONG), OSError(5, "I/O ünï"), Exception("cr\ronly"), Exception(""),
        UnicodeDecodeError("utf-8", b"\xff", 0, 1, "bad"), ZeroDivisionError(),
        Exception("surrogate \udcfe text"), asyncio.CancelledError(),
        ValueError("ü" * 800), RuntimeError("日本" * 600),
    ]
    return good, bad, excs


def wellformed_response(r):
    from nauyaca.protocol.response import GeminiResponse as R
    if not isinstance(r, R):
        return False
    if not isinstance(r.status, int) or not 10 <= r.status <= 69:
        return False
    try:
        m = r.meta.encode("utf-8")
        if isinstance(r.body, str):
            r.body.encode("utf-8")
    except Exception:
        return False
    if b"\r" in m or b"\n" in m or len(m) > 1024:
        return False
    if not 20 <= r.status <= 29 and r.body:
        return False
    return True


def gen_plan(ch, label, allow_cancel=True):
    good, bad, excs = handler_plans()
    kind = ch.choose(label + ".kind", 3, [6, 3, 3])
    delay = ch.pick(label + ".delay", [None, 0.0, 0.02, 1.0, 35.0], [5, 2, 2, 2, 1])
    if kind == 0:
        return {"kind": "ret", "delay": delay, "response": good[ch.choose(label + ".good", len(good))],
                "class": "good"}
    if kind == 1:
        return {"kind": "ret", "delay": delay, "response": bad[ch.choose(label + ".bad", len(bad))],
                "class": "bad"}
    return {"kind": "raise", "delay": delay, "exc": excs[ch.choose(label + ".exc", len(excs))],
            "class": "raise"}


def gen_peer(ch, stream, titan_info):
    """Returns (script, info): how the peer sends and misbehaves."""
    n = len(stream)
    fault = ch.choose("fault", 7, [10, 3, 2, 2, 2, 2, 2])
    info = {"fault": fault, "sent": stream, "k": None}
    hot = []
    i = stream.find(b"\r\n")
    if i >= 0:
        hot += [i, i + 1, i + 2]
    hot += [1024, 1025, n]
    if fault in (1, 2, 3) and n > 0:
        r = ch.choose("faultoff", 4)
        if r == 0 and hot:
            k = hot[ch.choose("faulthot", len(hot))]
            k = max(0, min(n, k - ch.choose("faulthotd", 2)))
        else:
            k = ch.choose("faultk", n + 1)
        info["k"] = k
        info["sent"] = stream[:k]
        stream = stream[:k]
    # pieces
    pieces = []
    m = len(stream)
    style = ch.choose("pstyle", 3, [4, 4, 2])
    cuts = set()
    if m >= 2 and style == 1:
        for _ in range(1 + ch.choose("pn", 4)):
            cuts.add(1 + ch.choose("pcut", m - 1))
    elif m >= 2 and style == 2:
        for h in hot:
            if 0 < h < m and ch.choose("phot", 2):
                cuts.add(h)
    edges = [0] + sorted(cuts) + [m]
    script = []
    for a, b in zip(edges, edges[1:]):
        if a:
            d = ch.pick("pdelay", [0.0, 0.003, 0.2, 2.0], [4, 3, 2, 1])
            if d:
                script.append(("sleep", d))
        if b > a:
            script.append(("send", stream[a:b]))
    if fault == 1:
        script.append(("stall",))
    elif fault == 2:
        script.append(("close",) if ch.choose("finpolite", 2) else ("fin",))
    elif fault == 3:
        script.append(("rst",))
    elif fault == 4:
        script.append(("fin",))
    elif fault == 5:
        d = ch.pick("rstd", [0.0, 0.0005, 0.0015, 0.003, 0.5, 1.5])
        if d:
            script.append(("sleep", d))
        script.append(("rst",))
    elif fault == 6:
        d = ch.pick("find", [0.0005, 0.0015, 0.003, 0.5, 1.5])
        script.append(("sleep", d))
        script.append(("close",) if ch.choose("finpolite", 2) else ("fin",))
    return script, info


# ---------------------------------------------------------------------------
# document roots for the start_server() modes
# ---------------------------------------------------------------------------

def build_tree(ch, root):
    """Generate a small document root.  Returns {url_path: expected}."""
    os.makedirs(root, exist_ok=True)
    exp = {}

    def w(rel, data):
        p = os.path.join(root, rel)
        os.makedirs(os.path.dirname(p), exist_ok=True)
        with open(p, "wb") as f:
            f.write(data)
    if ch.chance("t.index", 0.5):
        w("index.gmi", b"# root index\n")
        exp["/"] = ("file", b"# root index\n", "text/gemini")
    else:
        exp["/"] = ("dir",)
    w("a.gmi", b"# a\nhello\n")
    exp["/a.gmi"] = ("file", b"# a\nhello\n", "text/gemini")
    w("big.txt", b"0123456789abcdef" * 2500)
    exp["/big.txt"] = ("file", b"0123456789abcdef" * 2500, "text/plain")
    w("sub/x.txt", "ünï ✓\n".encode())
    exp["/sub/x.txt"] = ("file", "ünï ✓\n".encode(), "text/plain")
    exp["/sub/"] = ("dir",)
    exp["/sub"] = ("dir",)
    w("latin.txt", b"caf\xe9\n")              # invalid UTF-8 content
    exp["/latin.txt"] = ("any",)
    os.makedirs(os.path.join(root, "empty"), exist_ok=True)
    exp["/empty/"] = ("dir",)
    w("with space.gmi", b"spaced\n")
    w("ñ.gmi", b"enye\n")
    if ch.chance("t.undecodable", 0.6):
        # a name that is not valid UTF-8 (surrogate-escaped by os.listdir)
        bad_dir = ch.pick("t.badwhere", ["", "sub", "weird"])
        d = os.path.join(os.fsencode(root), os.fsencode(bad_dir))
        os.makedirs(d, exist_ok=True)
        with open(os.path.join(d, b"bad\xffname.txt"), "wb") as f:
            f.write(b"x\n")
        exp["/weird/"] = ("dir",)
    if ch.chance("t.newline", 0.4):
        w("sub/new\nline.txt", b"nl\n")
    exp["/missing"] = ("any",)
    exp["/../etc/passwd"] = ("any",)
    exp["/sub/../a.gmi"] = ("any",)
    return exp


# ---------------------------------------------------------------------------
# one run
# ---------------------------------------------------------------------------

def run_one(ch):
    from nauyaca.protocol.response import GeminiResponse
    res = RunResult()
    sim = Sim(ch)
    net = sim.net
    assembly = ch.choose("assembly", 3, [7, 2, 2])    # 0 bare, 1 root, 2 locations
    scratch = fresh_dir("c01")
    conns = []
    nconn = 1 + ch.choose("nconn", 3, [5, 3, 2])
    state = {}
    if ch.chance("ipv6_peers", 0.25):
        state["ipv6_peers"] = True
        res.stats["ipv6_peers"] += 1

    if assembly == 0:
        mode = sw.MODES[ch.choose("mode", 3, [6, 2, 3])]
        hplan = gen_plan(ch, "h")
        uplan = gen_plan(ch, "u")
        if uplan["delay"] is None:
            uplan["delay"] = 0.0
        upload_enabled = ch.chance("upload_enabled", 0.8)
        # none, allow, deny, raise, slow+allow, (5 = late completion), real CertificateAuth
        mwkind = ch.choose("mw", 7, [6, 1, 2, 1, 1, 0, 1])
        # "late completion" scenario: an incomplete Titan upload runs into the request
        # timeout while a slow chain is still undecided; the chain then finishes
        # (raise / deny / allow) while the timeout response is still being drained
        # by a reader behind a tiny socket buffer
        late = ch.chance("latecompletion", 0.05)
        late_d = late_out = None
        if late:
            upload_enabled = True
            mwkind = 5
            late_d = ch.pick("late_d", [30.2, 30.5, 30.9, 31.4])
            late_out = ch.pick("late_out", ["raise", "deny", "allow"])
            state["late"] = True
        deny_resp = ch.pick("denyresp", ["53 Denied\r\n", "44 Slow down. Retry after 30 seconds\r\n",
                                         "60 Client certificate required\r\n"])
        spy = sw.SpyHandler(sim, hplan)
        upspy = sw.SpyUpload(sim, uplan) if upload_enabled else None
        mw = None
        mwlog = []
        if mwkind:
            from nauyaca.server.middleware import MiddlewareChain

            class Scripted:
                async def process_request(self, url, ip, fp=None):
                    mwlog.append((net.now, url))
                    if mwkind == 4:
                        await asyncio.sleep(0.5)
                    if mwkind == 5:
                        await asyncio.sleep(late_d)
                        if late_out == "raise":
                            raise RuntimeError("late failure")
                        if late_out == "deny":
                            return False, deny_resp
                    if mwkind == 2:
                        return False, deny_resp
                    if mwkind == 3:
                        raise RuntimeError("mw\r\nboom")
                    return True, None
            mw = MiddlewareChain([Scripted()])
            if mwkind == 6:
                # the library's own component: nobody here presents a client certificate
                from nauyaca.server.middleware import (CertificateAuth, CertificateAuthConfig,
                                                       CertificateAuthPathRule)
                mw = MiddlewareChain([CertificateAuth(CertificateAuthConfig(
                    path_rules=[CertificateAuthPathRule(prefix="/", require_cert=True)]))])
                deny_resp = "60 Client certificate required\r\n"
                res.stats["real_certificate_auth_component"] += 1
        paths = None
        tree = None
    else:
        mode = "pyopenssl" if ch.chance("pyo", 0.4) else "stdlib"
        upload_enabled = False
        root = os.path.join(scratch, "root")
        tree = build_tree(ch, root)
        paths = sorted(tree)
        listing = ch.chance("listing", 0.7)
        state["listing"] = listing
        if assembly == 2:
            # the proxy location's upstream: nobody listening, or a scripted TLS server
            ub = ch.choose("upstream", 5, [2, 2, 2, 1, 1])
            state["upstream"] = "gemini://nobody.sim:1965" if ub == 0 else "gemini://up.sim:1965"
            if ub:
                from sim.clientwire import ScriptedServer
                uscript = {1: [("wait_line",), ("send", b"20 text/plain\r\nfrom upstream\n"), ("close",)],
                           2: [("wait_line",), ("send", b"20 text/plain\r\npartial body"), ("stall",)],
                           3: [("stall",)],
                           4: [("wait_line",), ("send", b"nonsense header\r\n"), ("close",)]}[ub]
                ScriptedServer(sim, "up.sim", 1965, "rsa2", lambda i_, s_: {"script": uscript})
                res.stats["proxy_location_scripted_upstream"] += 1
            paths = paths + ["/px/x", "/px/y?q=1"]
            tree["/px/x"] = ("any",)
            tree["/px/y?q=1"] = ("any",)
        hplan = uplan = None
        spy = upspy = None
        mwkind = 0

    for i in range(nconn):
        stream, rinfo = gen_request(ch, i, upload_enabled, paths)
        script, pinfo = gen_peer(ch, stream, rinfo)
        slow = ch.chance("slowreader", 0.25)
        if state.get("late") and i == 0:
            size = 50 + ch.choose("late_size", 500)
            stream = f"titan://{HOST}/up/t0.txt;size={size};mime=text/plain".encode() + b"\r\n" + \
                b"x" * (size - 1 - ch.choose("late_short", 20))
            rinfo = {"kind": 6, "titan": True, "tsize": size, "stream": stream}
            script = [("send", stream)]
            pinfo = {"fault": 0, "sent": stream, "k": None}
            slow = True
        segmode = ch.choose("segmode", 4, [4, 3, 1, 2])
        start = ch.pick("cstart", [0.0, 0.0, 0.01, 1.0]) if i else 0.0
        conns.append({"i": i, "stream": stream, "rinfo": rinfo, "script": script, "pinfo": pinfo,
                      "slow": slow, "segmode": segmode, "start": start})

    async def main():
        if assembly == 0:
            server = await sw.start_protocol_server(sim, mode, spy, mw, upspy)
            srv_task = None
        else:
            from nauyaca.server.config import ServerConfig
            from nauyaca.server.location import HandlerType, LocationConfig
            from nauyaca.server.server import start_server
            locs = None
            if assembly == 2:
                locs = [LocationConfig(prefix="/sub/", handler_type=HandlerType.STATIC,
                                       document_root=pathlib.Path(root, "sub"),
                                       enable_directory_listing=listing),
                        LocationConfig(prefix="/px/", handler_type=HandlerType.PROXY,
                                       upstream=state["upstream"], timeout=2.0)]
                if ch.chance("catchall", 0.5):
                    locs.append(LocationConfig(prefix="/", handler_type=HandlerType.STATIC,
                                               document_root=pathlib.Path(root),
                                               enable_directory_listing=listing))
                    state["catchall"] = True
            cfg = ServerConfig(host=HOST, port=1965, document_root=pathlib.Path(root),
                               certfile=pathlib.Path(fx.crt("rsa1")),
                               keyfile=pathlib.Path(fx.key("rsa1")),
                               require_client_cert=(mode == "pyopenssl"), locations=locs)
            srv_task = asyncio.ensure_future(start_server(
                cfg, enable_directory_listing=listing, log_level="CRITICAL",
                enable_rate_limiting=ch.chance("ratelimit", 0.7)))
            await asyncio.sleep(0.001)
            if srv_task.done():
                srv_task.result()
            server = None
        for c in conns:
            if c["start"]:
                await asyncio.sleep(c["start"])
            pol = DrawnPolicy(ch, "c2s", c["segmode"], latency=0.001,
                              delays=[0.001, 0.0, 0.004, 0.05], hot=[1024, 1025],
                              dribble_limit=1200)
            cap_s2c = 65536
            kw = {}
            if c["slow"]:
                cap_s2c = ch.pick("s2ccap", [256, 1024, 4096, 16, 64])
                if state.get("late") and c["i"] == 0:
                    cap_s2c = 16
                # tiny buffers get a short read interval so that even the largest body
                # drains well within asyncio's 30 s TLS shutdown timer (see C06's finding)
                kw = dict(read_rate=ch.pick("rrate", [512, 4096]),
                          read_interval=0.05 if cap_s2c > 64 else 0.001)
                if state.get("late") and c["i"] == 0:
                    kw = dict(read_rate=16, read_interval=0.7)
            src = ("10.0.0.%d" % (c["i"] + 2), 50000 + c["i"])
            if state.get("ipv6_peers"):
                src = ("2001:db8::%x" % (c["i"] + 2), 50000 + c["i"], 0, 0)
            ep = raw_connect(net, HOST, 1965, src=src,
                             c2s=pol, s2c=WholePolicy(0.001), cap_s2c=cap_s2c, tag=f"k{c['i']}")
            c["peer"] = RawPeer(net, ep, c["script"], tls_ctx=sw.peer_tls_ctx(mode),
                                name=f"cli{c['i']}", **kw)
            c["t0"] = net.now
        # run until every peer that stays connected has seen EOF, bounded
        deadline = 200.0
        while net.now < deadline:
            await asyncio.sleep(0.5)
            # a peer that half-closed keeps receiving until the server ends the stream;
            # only a peer that reset the connection has nothing more to wait for
            if all(c["peer"].eof_seen() or (c["peer"].closed and c["pinfo"]["fault"] in (3, 5))
                   for c in conns) and net.now > 2.0:
                break
        await asyncio.sleep(40.0 if any(c["pinfo"]["fault"] == 1 for c in conns) else 3.0)
        for c in conns:
            c["peer"].drain_final()
        if server is not None:
            server.close()
        if srv_task is not None:
            srv_task.cancel()

    status = sim.run(main(), horizon=400.0, max_iterations=600000)
    if sim.error is not None:
        raise sim.error
    if status != "done":
        raise RuntimeError(f"C01 world ended with status {status}")

    # ------------------------------------------------------------------ judge
    for c in conns:
        peer = c["peer"]
        rx = bytes(peer.rx_plain)
        pinfo, rinfo = c["pinfo"], c["rinfo"]
        fault = pinfo["fault"]
        peer_left = fault in (2, 3, 4, 5, 6)
        peer_rst = fault in (3, 5)
        sent = pinfo["sent"]
        trig = classify(sent)
        consumed = bool(assembly == 0 and upspy is not None and any(
            e[1] and f"/up/t{c['i']}.txt" in e[1] for e in upspy.log))
        if mode == "stdlib" and _extra_after_request(sent, rinfo, consumed):
            # asyncio's sslproto aborts the connection (dropping what is still
            # buffered) when application data arrives after it has sent its
            # close_notify: a peer that keeps sending after its request may cut
            # its own response short.  Same treatment as a peer reset.
            peer_rst = True
            peer_left = True
            res.stats["stdlib_peer_sent_after_request"] += 1
        if mode != "plain" and peer_left:
            # a TCP FIN / close_notify from the client ends the TLS session: what
            # the TLS layer still held back may be dropped (the client cut it)
            peer_rst = True
        ctx = dict(assembly=["bare", "start_server/root", "start_server/locations"][assembly],
                   mode=mode, conn=c["i"], sent=sent[:160], sent_len=len(sent), fault=fault,
                   fault_offset=pinfo["k"], slow_reader=c["slow"], received=rx[:240],
                   received_len=len(rx),
                   handler=(_plan_repr(hplan) if hplan else None), middleware=mwkind,
                   upload=(_plan_repr(uplan) if (uplan and upload_enabled) else None),
                   loop_exceptions=sim.loop.exceptions[:2])
        site = f"{['bare', 'root', 'locations'][assembly]}/{mode}"
        if peer.tls_error is not None and not rx and mode != "plain":
            # TLS-level failure at the peer: not a protocol-level observation
            res.stats["peer_tls_error"] += 1
            continue
        if rx:
            pw = sw.parse_wire(rx)
            if peer_rst:
                # the peer cut the stream itself: only a prefix can be demanded
                if b"\r\n" in rx and not _header_ok(rx):
                    res.violate(f"C01/malformed-header/{_why_key(pw['why'])}/{site}",
                                f"header line violates the response grammar: {pw['why']}", **ctx)
            elif not pw["ok"]:
                res.violate(f"C01/malformed-response/{_why_key(pw['why'])}/{site}",
                            f"client received an ill-formed response: {pw['why']}", **ctx)
            # equality with what the handler produced
            exp = _expected(c, assembly, spy, upspy, hplan, uplan, mwkind,
                            deny_resp if assembly == 0 else None, tree, state)
            if exp is not None and not peer_rst:
                kind, val = exp
                if kind == "exact" and rx != val:
                    res.violate(f"C01/response-differs-from-handler/{site}",
                                "bytes on the wire are not exactly the header and body the "
                                "handler/middleware produced (second header, truncated or altered "
                                "response)", expected=val[:240], expected_len=len(val), **ctx)
                elif kind == "prefix" and not rx.startswith(val):
                    res.violate(f"C01/listing-not-a-listing/{site}",
                                "2x directory listing response does not start with the listing",
                                expected_prefix=val, **ctx)
            if exp is not None and peer_rst and exp[0] == "exact" and not exp[1].startswith(rx):
                res.violate(f"C01/response-differs-from-handler/{site}",
                            "bytes received before the reset are not a prefix of the handler's "
                            "response", expected=exp[1][:240], **ctx)
            if not peer_left and not peer.eof_seen():
                res.violate(f"C01/no-close-after-response/{site}",
                            "a response was received but the server never ended the stream", **ctx)
        else:
            if not peer_left:
                why = {"line": "a complete request line", "oversize": "more than 1024 bytes "
                       "without CRLF", "none": "a stall past the request timeout"}[trig]
                res.violate(f"C01/no-response/{trig}/{site}",
                            f"the peer stayed connected after {why} but received nothing "
                            f"(eof_seen={peer.eof_seen()})", **ctx)
        # probes
        if fault == 1 or (trig == "none" and not peer_left):
            res.stats["timeout_path"] += 1
        if fault in (2, 4, 6):
            res.stats["peer_fin_before_response"] += 1
        if fault == 5:
            res.stats["peer_rst_mid_response"] += 1
        if c["slow"]:
            res.stats["slow_reader"] += 1
        if trig == "oversize":
            res.stats["oversize_line"] += 1
        if rinfo["titan"] and upspy is not None and upspy.log:
            res.stats["titan_upload_path"] += 1
        if rx.startswith(b"20 text/gemini\r\n# Index of"):
            res.stats["listing_served"] += 1
        if rx.startswith(b"51 ") and assembly == 2 and not state.get("catchall"):
            res.stats["default_404_reached"] += 1
        res.stats["connections"] += 1
    if state.get("late"):
        res.stats["late_completion_after_timeout"] += 1
    if assembly == 0:
        if hplan["kind"] == "raise" and spy.log:
            res.stats["handler_raised"] += 1
        if hplan.get("class") == "bad" and spy.log:
            res.stats["handler_illformed"] += 1
        if mwkind == 2 and mwlog:
            res.stats["middleware_denied"] += 1
        if hplan["delay"] == 35.0 and spy.log:
            res.stats["delayed_handler_gt_timeout"] += 1
    elif assembly == 1:
        res.stats["start_server_root"] += 1
    else:
        res.stats["start_server_locations"] += 1
    res.stats["mode_" + mode] += 1
    res.sim_seconds = net.now
    res.signature = sim.signature()
    res.digest = sim.digest()
    res.nontrivial = any(c["pinfo"]["fault"] or c["slow"] or c["segmode"] for c in conns) or \
        (hplan is not None and hplan.get("class") != "good")
    c0 = conns[0]
    res.sample = {"assembly": ["bare", "root", "locations"][assembly], "mode": mode,
                  "connections": nconn, "request": c0["stream"][:80].decode("latin-1"),
                  "fault": c0["pinfo"]["fault"], "slow_reader": c0["slow"],
                  "handler": _plan_repr(hplan) if hplan else "real",
                  "received": bytes(c0["peer"].rx_plain[:60]).decode("latin-1")}
    return res


def _extra_after_request(sent, rinfo, titan_consumed):
    i = sent.find(b"\r\n")
    if i < 0 or i + 2 > 1024:
        return len(sent) > 1025   # the server answers at the first read beyond 1024 bytes
    rest = len(sent) - (i + 2)
    if titan_consumed and "tsize" in rinfo:
        rest -= rinfo["tsize"]   # declared content was taken by the upload handler
    return rest > 0


def _plan_repr(p):
    if p is None:
        return None
    if p["kind"] == "raise":
        return f"raise {type(p['exc']).__name__}({str(p['exc'])[:40]!r}) delay={p['delay']}"
    r = p["response"]
    if hasattr(r, "status"):
        b = r.body
        return (f"return {r.status} meta={r.meta[:40]!r} body={type(b).__name__}"
                f"[{len(b) if b is not None else 0}] delay={p['delay']}")
    return f"return {r!r:.40} delay={p['delay']}"


def _why_key(why):
    if not why:
        return "unknown"
    if "CR or LF" in why:
        return "crlf-in-meta"
    if "> 1024" in why:
        return "meta-too-long"
    if "body" in why:
        return "body-on-non-2x"
    if "out of range" in why or "two digits" in why:
        return "bad-status"
    if "no CRLF" in why:
        return "header-without-crlf"
    return "other"


def _header_ok(rx):
    i = rx.find(b"\r\n")
    head = rx[:i]
    if len(head) < 3 or not head[:2].isdigit() or head[2:3] != b" ":
        return False
    if not 10 <= int(head[:2]) <= 69:
        return False
    meta = head[3:]
    return b"\r" not in meta and b"\n" not in meta and len(meta) <= 1024


def _expected(c, assembly, spy, upspy, hplan, uplan, mwkind, deny_resp, tree, state):
    """('exact', bytes) | ('prefix', bytes) | None when nothing specific can be demanded."""
    rinfo = c["rinfo"]
    if b"\r\n" not in c["pinfo"]["sent"]:
        return None      # the request line never went out completely
    if assembly == 0:
        tag = c["i"]
        if rinfo["titan"]:
            if upspy is None:
                return None
            mine = [e for e in upspy.log if e[1] and f"/up/t{tag}.txt" in e[1]]
            if len(mine) != 1:
                return None
            if uplan["kind"] == "ret" and wellformed_response(uplan["response"]):
                return ("exact", sw.expected_wire(uplan["response"]))
            return None
        mine = [e for e in spy.log if e[1] and e[1].startswith(f"gemini://{HOST}/c{tag}")]
        if mwkind in (2, 6) and rinfo["kind"] in (0, 9):
            return ("exact", deny_resp.encode())
        if len(mine) != 1:
            return None
        if hplan["kind"] == "ret" and wellformed_response(hplan["response"]):
            return ("exact", sw.expected_wire(hplan["response"]))
        return None
    # start_server modes: derive from the tree for plain requests
    if rinfo["kind"] != 0:
        return None
    line = c["stream"].split(b"\r\n")[0].decode()
    path = line[len(f"gemini://{HOST}"):]
    if "?" in path:
        path = path.split("?")[0]
    e = tree.get(path)
    if e is None or e[0] == "any":
        return None
    if assembly == 2:
        # only the catch-all location serves the whole tree 1:1
        if not state.get("catchall") or path.startswith("/sub") or path.startswith("/px"):
            return None
    if e[0] == "file":
        return ("exact", f"20 {e[2]}\r\n".encode() + e[1])
    return None
