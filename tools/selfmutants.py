#!/usr/bin/env python3
"""Sensitivity self-test: hand-written mutations of /repo/src (the "must catch"
lists of DESIGN.md section 4), each evaluated against the check of its property
on a scratch copy (VERIF_SRC), never on /repo.

Usage: tools/selfmutants.py [name-prefix ...]      (env RUNS=<n> optional)
Writes /verif/selfmutants/RESULTS.json and prints a table.
"""
import json
import os
import shutil
import subprocess
import sys
import tempfile

HERE = os.path.dirname(os.path.dirname(os.path.abspath(__file__)))
SP = "src/nauyaca/server/protocol.py"
MW = "src/nauyaca/server/middleware.py"
TP = "src/nauyaca/server/tls_protocol.py"
HD = "src/nauyaca/server/handler.py"
PX = "src/nauyaca/server/proxy.py"
CP = "src/nauyaca/client/protocol.py"
CS = "src/nauyaca/client/session.py"
TF = "src/nauyaca/security/tofu.py"

# name: (property, description, [(file, old, new, count)])
M = {
 # ---- C01 ---------------------------------------------------------------
 "C01-m1-no-crlf-guard": ("C01", "meta CR/LF not neutralised", [(SP,
    'meta = str(response.meta).replace("\\r", " ").replace("\\n", " ")', 'meta = str(response.meta)', 1)]),
 "C01-m2-no-once-flag": ("C01", "response_sent guard removed from _send_response", [(SP,
    "if not self.transport or self.response_sent:\n            return\n\n        # Encode header",
    "if not self.transport:\n            return\n\n        # Encode header", 1)]),
 "C01-m3-body-on-any-status": ("C01", "body written for every status", [(SP,
    "if 20 <= status < 30 and response.body:", "if response.body:", 1)]),
 "C01-m4-no-close": ("C01", "connection not closed after the response", [(SP,
    "        # Close connection (Gemini/Titan: one request per connection)\n        self.transport.close()",
    "        # Close connection (Gemini/Titan: one request per connection)\n        pass", 1)]),
 "C01-m5-handler-exception-escapes": ("C01", "async handler errors not funnelled", [(SP,
    '''            # Send the response
            self._send_response(response)

        except (Exception, asyncio.CancelledError) as e:
            logger.error(
                "async_handler_error",''', '''            # Send the response
            self._send_response(response)

        except KeyError as e:
            logger.error(
                "async_handler_error",''', 1)]),
 # ---- C03 ---------------------------------------------------------------
 "C03-m1-prefix-compare": ("C03", "only the first 20 characters of the fingerprint compared", [(TF,
    "if stored_fingerprint == fingerprint:", "if stored_fingerprint[:20] == fingerprint[:20]:", 1)]),
 "C03-m2-pins-by-host-only": ("C03", "verify looks the pin up by host name only", [(TF,
    '''        with self._connection() as conn:
            cursor = conn.cursor()

            cursor.execute(
                "SELECT fingerprint FROM known_hosts WHERE hostname = ? AND port = ?",
                (hostname, port),
            )
            row = cursor.fetchone()

            if row is None:
                # First time seeing this host
                return True, "first_use"''', '''        with self._connection() as conn:
            cursor = conn.cursor()

            cursor.execute(
                "SELECT fingerprint FROM known_hosts WHERE hostname = ?",
                (hostname,),
            )
            row = cursor.fetchone()

            if row is None:
                # First time seeing this host
                return True, "first_use"''', 1)]),
 "C03-m3-trust-on-changed": ("C03", "a changed certificate is re-trusted instead of refused", [(CS,
    '''                    if not is_valid and message == "changed":
                        # Certificate changed - get old info and raise error
                        old_info = self.tofu_db.get_host_info(
                            parsed.hostname, parsed.port
                        )''', '''                    if not is_valid and message == "changed" and parsed.port != 1965:
                        # Certificate changed - get old info and raise error
                        old_info = self.tofu_db.get_host_info(
                            parsed.hostname, parsed.port
                        )''', 2)]),
 "C03-m4-unreadable-is-fine": ("C03", "unreadable certificate treated as unpinned-and-fine again", [(CS,
    "                if cert is None:\n                    # A certificate we cannot read",
    "                if cert is None and False:\n                    # A certificate we cannot read", 2)]),
 "C03-m5-host-not-idna-prepared": ("C03", "non-ASCII host names keyed as written again (the original defect)", [("src/nauyaca/utils/url.py",
    "        if prepared and all(c.isalnum() or c in \"-._\" for c in prepared):\n            hostname = prepared\n", "", 1)]),
 # ---- C04 ---------------------------------------------------------------
 "C04-m1-unknown-peer": ("C04", "chain consulted with 'unknown' instead of the peer address (gemini)", [(SP,
    '''        client_ip = self.peer_name[0] if self.peer_name else "unknown"

        # Process through middleware if present''', '''        client_ip = "unknown"

        # Process through middleware if present''', 1)]),
 "C04-m2-continue-after-reject": ("C04", "chain keeps going after the first rejection (last response wins)", [(MW,
    '''            if not allow:
                return False, response

        return True, None''', '''            if not allow:
                rejected = response
        if "rejected" in locals():
            return False, rejected

        return True, None''', 1)]),
 "C04-m3-titan-bypass": ("C04", "Titan skips the chain when content came with the request line", [(SP,
    "        if self.middleware:\n            client_ip = self.peer_name[0] if self.peer_name else \"unknown\"\n            # Request already complete",
    "        if self.middleware and len(self.buffer) < self.titan_request.size:\n            client_ip = self.peer_name[0] if self.peer_name else \"unknown\"\n            # Request already complete", 1)]),
 "C04-m4-no-fingerprint": ("C04", "fingerprint not handed to the chain", [(SP,
    "request.normalized_url, client_ip, client_cert_fingerprint\n", "request.normalized_url, client_ip, None\n", 1)]),
 # ---- C06 ---------------------------------------------------------------
 "C06-m1-send-not-sendall": ("C06", "pyOpenSSL send() instead of sendall()", [(TP,
    "self.tls_protocol.tls_conn.sendall(data)", "self.tls_protocol.tls_conn.send(data)", 1)]),
 "C06-m2-latin1-body": ("C06", "str bodies encoded as latin-1 with replacement", [(SP,
    'body = response.body.encode("utf-8")', 'body = response.body.encode("latin-1", "replace")', 1)]),
 "C06-m3-flush-one-chunk": ("C06", "_flush_outgoing drains a single 8 KiB chunk", [(TP,
    '''            while True:
                pending = self.tls_conn.bio_read(8192)
                if not pending:
                    break
                self.transport.write(pending)''', '''            pending = self.tls_conn.bio_read(8192)
            if pending:
                self.transport.write(pending)''', 1)]),
 "C06-m4-no-session-id-context": ("C06", "session id context not set on the PyOpenSSL context (the original defect)", [("src/nauyaca/security/pyopenssl_tls.py",
    '    ctx.set_session_id(b"nauyaca-gemini")\n', '', 1)]),
 # ---- C07 ---------------------------------------------------------------
 "C07-m1-dispatch-every-read": ("C07", "awaiting flag never cleared", [(SP,
    "        self.awaiting_titan_content = False\n\n        try:\n            # Create async task for upload handler",
    "        try:\n            # Create async task for upload handler", 1)]),
 "C07-m2-early-slice": ("C07", "content sliced when size-1 bytes are buffered", [(SP,
    "            if len(self.buffer) >= self.titan_request.size:\n                # Cancel timeout - we got all the content",
    "            if len(self.buffer) >= self.titan_request.size - 1:\n                # Cancel timeout - we got all the content", 1)]),
 "C07-m3-coalesced-data-dropped": ("C07", "application data coalesced with the handshake is not processed", [(TP,
    "        # Process any application data that arrived with the final handshake message\n        self._process_pending_after_handshake()",
    "        # Process any application data that arrived with the final handshake message\n        pass", 1)]),
 # ---- C10 ---------------------------------------------------------------
 "C10-m1-gt-instead-of-ge": ("C10", "> instead of >= in consume", [(MW,
    "if self.tokens >= tokens:", "if self.tokens > tokens:", 1)]),
 "C10-m2-refill-past-capacity": ("C10", "refill not capped", [(MW,
    "self.tokens = min(self.capacity, self.tokens + (elapsed * self.refill_rate))",
    "self.tokens = self.tokens + (elapsed * self.refill_rate)", 1)]),
 "C10-m3-shared-bucket": ("C10", "one bucket shared by all IPv6 peers", [(MW,
    "        bucket = self.buckets[client_ip]\n", "        bucket = self.buckets[client_ip if ':' not in client_ip else next(iter(self.buckets))]\n", 1)]),
 "C10-m4-evict-by-age": ("C10", "eviction by age alone (the original defect)", [(MW,
    "                and bucket.tokens + (now - bucket.last_update) * bucket.refill_rate\n                >= bucket.capacity\n", "", 1)]),
 # ---- C11 ---------------------------------------------------------------
 "C11-m1-upload-sends-early": ("C11", "upload writes the request in connection_made again", [(CS,
    "            response_future,\n            send_immediately=self.tofu_db is None,\n        )",
    "            response_future,\n            send_immediately=True,\n        )", 1)]),
 "C11-m2-line-early-body-late": ("C11", "Titan request line sent early, only the content withheld", [(CP,
    '''        if self.send_immediately:
            self.send_request()

    def send_request(self) -> None:
        """Send the Titan request (URL + CRLF + content bytes), at most once."""
        if self.request_sent or not self.transport:
            return
        self.request_sent = True
        request_line = f"{self.titan_url}\\r\\n".encode()
        self.transport.write(request_line)
        self.transport.write(self.content)''', '''        self.transport.write(f"{self.titan_url}\\r\\n".encode())
        if self.send_immediately:
            self.send_request()

    def send_request(self) -> None:
        """Send the Titan request (URL + CRLF + content bytes), at most once."""
        if self.request_sent or not self.transport:
            return
        self.request_sent = True
        self.transport.write(self.content)''', 1)]),
 # ---- C12 ---------------------------------------------------------------
 "C12-m1-commit-per-entry": ("C12", "import commits after every inserted entry", [(TF,
    "                        (hostname, port, fingerprint, first_seen, now),\n                    )\n                    added_count += 1",
    "                        (hostname, port, fingerprint, first_seen, now),\n                    )\n                    conn.commit()\n                    added_count += 1", 1)]),
 "C12-m2-clear-separately": ("C12", "replace mode clears in its own transaction (the original defect)", [(TF,
    '            if not merge:\n                cursor.execute("DELETE FROM known_hosts")',
    '            if not merge:\n                cursor.execute("DELETE FROM known_hosts")\n                conn.commit()', 1)]),
 "C12-m3-first-seen-dropped": ("C12", "import stores 'now' as first_seen", [(TF,
    "(hostname, port, fingerprint, first_seen, now),", "(hostname, port, fingerprint, now, now),", 1)]),
 # ---- C13 ---------------------------------------------------------------
 "C13-m1-ignore-exc": ("C13", "connection errors ignored in connection_lost", [(CP,
    "        if exc:\n            self.response_future.set_exception(exc)\n            return\n\n        # If we never received a header",
    "        # If we never received a header", 1)]),
 "C13-m2-no-cap": ("C13", "size cap removed", [(CP,
    "if len(self.buffer) > MAX_RESPONSE_BODY_SIZE:", "if False and len(self.buffer) > MAX_RESPONSE_BODY_SIZE:", 2)]),
 "C13-m3-no-response-timeout": ("C13", "response wait without timeout (get)", [(CS,
    "            response: GeminiResponse = await asyncio.wait_for(\n                response_future, timeout=self.timeout\n            )\n            return response\n        except TimeoutError as e:\n            raise TimeoutError(f\"Request timeout: {url}\") from e",
    "            response: GeminiResponse = await response_future\n            return response\n        except TimeoutError as e:\n            raise TimeoutError(f\"Request timeout: {url}\") from e", 1)]),
 "C13-m4-charset-lookup-uncaught": ("C13", "LookupError not caught again (the original defect)", [(CP,
    "except (UnicodeDecodeError, LookupError, ValueError) as e:", "except UnicodeDecodeError as e:", 2)]),
 "C13-m5-no-connect-timeout": ("C13", "connection phase without timeout (get)", [(CS,
    """                    server_hostname=parsed.hostname,
                ),
                timeout=self.timeout,
            )
        except TimeoutError as e:
            raise TimeoutError(f"Connection timeout: {url}") from e""",
    """                    server_hostname=parsed.hostname,
                ),
                timeout=None,
            )
        except TimeoutError as e:
            raise TimeoutError(f"Connection timeout: {url}") from e""", 2)]),
 # ---- C14 ---------------------------------------------------------------
 "C14-m1-check-before-resolve": ("C14", "containment checked on the unresolved path", [(HD,
    "        target = (self.upload_dir / request.path.lstrip(\"/\")).resolve()\n        if not self._is_safe_path(target):",
    "        target = self.upload_dir / request.path.lstrip(\"/\")\n        if \"..\" in request.path:", 1)]),
 "C14-m2-delete-without-switch": ("C14", "delete allowed although disabled", [(HD,
    "        if not self.enable_delete:\n            return GeminiResponse(", "        if not self.enable_delete and False:\n            return GeminiResponse(", 1)]),
 "C14-m3-in-place-write": ("C14", "in-place write again (the original defect)", [(HD,
    "                tmp_path.write_bytes(request.content)\n                os.replace(tmp_path, target)",
    "                target.write_bytes(request.content)", 1)]),
 "C14-m4-token-after-write": ("C14", "token only checked when the target exists", [(HD,
    "            if not request.token or request.token not in self.auth_tokens:",
    "            if (self.upload_dir / request.path.lstrip(\"/\")).exists() and (\n                not request.token or request.token not in self.auth_tokens\n            ):", 1)]),
 # ---- C15 ---------------------------------------------------------------
 "C15-m1-rearm-on-read": ("C15", "request timer re-armed on every read", [(SP,
    "        self.buffer += data\n\n        # State 1",
    "        self.buffer += data\n        if self.timeout_handle:\n            self.timeout_handle.cancel()\n            self.timeout_handle = asyncio.get_running_loop().call_later(\n                REQUEST_TIMEOUT, self._handle_timeout\n            )\n\n        # State 1", 1)]),
 "C15-m2-no-cancel-before-handler": ("C15", "timer not cancelled when the Gemini line is complete", [(SP,
    "                    # Cancel timeout - we got the complete Gemini request\n                    if self.timeout_handle:\n                        self.timeout_handle.cancel()\n                        self.timeout_handle = None",
    "                    # Cancel timeout - we got the complete Gemini request", 1)]),
 "C15-m3-no-handshake-timer": ("C15", "PyOpenSSL handshake timer removed (the original defect)", [(TP,
    "            self._handshake_timeout_handle = loop.call_later(\n                HANDSHAKE_TIMEOUT, self._handle_handshake_timeout\n            )",
    "            self._handshake_timeout_handle = None", 1)]),
 "C15-m4-failed-handshake-left-open": ("C15", "a failed handshake only disarms the timer ('peer will go away')", [(TP,
    '            self._close_with_error(f"Handshake failed: {e}")',
    '            self._cancel_handshake_timeout()\n            logger.warning("tls_handshake_failed", error=str(e))', 1)]),
 "C15-m5-tls-error-swallowed": ("C15", "TLS error in application data swallowed after disarming the request timer", [(TP,
    '            self._close_with_error(f"TLS error: {e}")',
    '            if self.inner_protocol is not None and getattr(self.inner_protocol, "timeout_handle", None):\n                self.inner_protocol.timeout_handle.cancel()\n                self.inner_protocol.timeout_handle = None', 1)]),
 # ---- C16 ---------------------------------------------------------------
 "C16-m1-follow-any-scheme": ("C16", "scheme filter removed", [(CS,
    '            if not redirect_url.startswith("gemini://"):\n                return response',
    '            if not redirect_url.startswith(("gemini://", "titan://", "http://", "gopher://")):\n                return response', 1)]),
 "C16-m2-no-loop-detection": ("C16", "loop check removed and limit raised by one", [(CS,
    "        if url in redirect_chain:\n            raise ValueError(f\"Redirect loop detected: {url}\")",
    "        if False:\n            raise ValueError(f\"Redirect loop detected: {url}\")", 1),
    (CS, "if len(redirect_chain) > max_redirects:", "if len(redirect_chain) > max_redirects + 1:", 1)]),
 "C16-m3-off-by-one-again": ("C16", ">= again (the original defect)", [(CS,
    "if len(redirect_chain) > max_redirects:", "if len(redirect_chain) >= max_redirects:", 1)]),
 "C16-m4-return-3x-at-limit": ("C16", "at the limit the 3x is returned instead of raising", [(CS,
    "        # Get the URL\n        response = await self._get_single(url)\n\n        # If it's a redirect, follow it\n        if is_redirect(response.status):",
    "        # Get the URL\n        response = await self._get_single(url)\n\n        # If it's a redirect, follow it\n        if is_redirect(response.status) and len(redirect_chain) < max_redirects:", 1)]),
 # ---- C18 ---------------------------------------------------------------
 "C18-m1-follow-redirects": ("C18", "proxy follows upstream redirects", [(PX,
    "                follow_redirects=False,", "                follow_redirects=True,", 1)]),
 "C18-m2-only-timeout-caught": ("C18", "only TimeoutError mapped to 43", [(PX,
    "        except ConnectionError as e:", "        except KeyError as e:", 1),
    (PX, "        except Exception as e:\n            # Catch-all for unexpected errors", "        except KeyError as e:\n            # Catch-all for unexpected errors", 1)]),
 "C18-m3-decode-again": ("C18", "proxy client decodes text again (the original defect)", [(PX,
    "            decode_text=False,\n", "", 1)]),
}


def make(name, outdir):
    prop, desc, edits = M[name]
    d = tempfile.mkdtemp(prefix="nauyaca-sm-", dir="/dev/shm")
    try:
        shutil.copytree("/repo/src", os.path.join(d, "a", "src"))
        shutil.copytree("/repo/src", os.path.join(d, "b", "src"))
        for path, old, new, cnt in edits:
            p = os.path.join(d, "b", path)
            s = open(p).read()
            if s.count(old) != cnt:
                return None, f"edit does not match ({s.count(old)} != {cnt}): {old[:50]!r}"
            open(p, "w").write(s.replace(old, new))
        r = subprocess.run(["diff", "-ruN", "a/src", "b/src"], cwd=d, capture_output=True, text=True)
        patch = r.stdout.replace("--- a/src", "--- a/src").replace("+++ b/src", "+++ b/src")
        # syntax check
        for path, *_ in edits:
            c = subprocess.run(["/venv/bin/python", "-m", "py_compile", os.path.join(d, "b", path)],
                               capture_output=True, text=True)
            if c.returncode:
                return None, "does not compile: " + c.stderr[-200:]
        out = os.path.join(outdir, name + ".diff")
        open(out, "w").write(patch)
        return out, None
    finally:
        shutil.rmtree(d, ignore_errors=True)


def main():
    outdir = os.path.join(HERE, "selfmutants")
    os.makedirs(outdir, exist_ok=True)
    names = [n for n in M if not sys.argv[1:] or any(n.startswith(a) for a in sys.argv[1:])]
    results = {}
    rp = os.path.join(outdir, "RESULTS.json")
    if os.path.exists(rp):
        results = json.load(open(rp))
    for n in names:
        prop, desc, _ = M[n]
        patch, err = make(n, outdir)
        if err:
            print(f"{n}: SKIPPED ({err})")
            results[n] = {"property": prop, "description": desc, "status": "skipped: " + err}
            continue
        p = subprocess.run([os.path.join(HERE, "tools", "eval_mutant.sh"), patch, prop],
                           capture_output=True, text=True)
        rc = [l for l in p.stdout.splitlines() if l.startswith("== ")]
        caught = any("exit=1" in l for l in rc)
        harness = any("exit=2" in l for l in rc)
        keys = [l.split("violation key=")[1].split(":")[0] for l in p.stdout.splitlines()
                if l.startswith("violation key=")][:3]
        results[n] = {"property": prop, "description": desc,
                      "status": "caught" if caught else ("harness-error" if harness else "MISSED"),
                      "keys": keys}
        print(f"{n}: {results[n]['status']} {keys[:2]}", flush=True)
        json.dump(results, open(rp, "w"), indent=1)
    json.dump(results, open(rp, "w"), indent=1)
    missed = [n for n, r in results.items() if r["status"] != "caught"]
    print(f"{len(results) - len(missed)}/{len(results)} caught; not caught: {missed}")


if __name__ == "__main__":
    main()
