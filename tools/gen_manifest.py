#!/usr/bin/env python3
"""Regenerate MANIFEST.json from the table below (keeps it schema-valid)."""
import json, os, sys
HERE = os.path.dirname(os.path.dirname(os.path.abspath(__file__)))

CLAIMED = {
    # id: (level, section, technique, level text, level note)
    "C01": ("exploration", "4/C01",
            "deterministic simulation: real server protocol stack on a fake kernel, scripted raw peers injecting segmentation, stalls, half-close, reset and slow reading; wire-grammar + expected-response oracle per connection history",
            "Seeded search over request bytes x handler/middleware outcomes x peer faults x transport modes (plain, stdlib TLS, PyOpenSSL) x server assemblies (bare protocol, start_server with root or locations); every connection's received bytes are judged against the response grammar, the handler's own response and the exactly-once/close rules.",
            "Trusts FakeSocket's TCP model (FIFO, lossless, FIN on close) and the scripted peer's TLS engine; self-inflicted truncation (peer reset / TLS peer sending after its request or half-closing) is three-valued."),
    "C03": ("exploration", "4/C03",
            "deterministic simulation: real GeminiClient + TOFUDatabase against scripted TLS servers, seeded operation/environment histories checked step by step against an abstract pin-map reference model",
            "Seeded histories of get/upload/delete, trust/revoke/clear/import and environment steps (certificate swaps incl. parser-rejected certificates, redirects) over 6 endpoints, TOFU on/off; after every step the known_hosts table must equal the model and every call's outcome is prescribed by it.",
            "Fingerprints are computed by the harness from the fixture DER; redirect chains are one hop long here (graphs are C16)."),
    "C11": ("exploration", "4/C11",
            "deterministic simulation: impostor/lazy/never-reading scripted TLS peers decrypt everything the real client transmits; ordering of pin lookup vs first application record by the simulator's global event sequence (SQL seam + socket seam)",
            "Seeded histories of get/upload/delete against peers whose certificate matches, is new, changed or unreadable, incl. redirect hops; a peer that fails verification must have decrypted zero application bytes, and on every TOFU connection the first application record is sent after the pin lookup.",
            "TLS 1.3 record layout is used to locate the first application record; alerts are not application bytes."),
    "C12": ("fault_enumeration", "4/C12",
            "deterministic simulation with fault enumeration: every SQL statement boundary and commit of the target store operation is used once as a crash point (db + journal snapshot, reopen, hot-journal recovery) and once as an injected error; before/after reference model",
            "For seeded histories over adversarial host names the last operation is re-executed from the same durable state once per tick and fault kind; the table must be exactly as before or exactly as after; export/import round trips are compared field by field.",
            "Crash points inside sqlite's C commit are delegated to sqlite's atomic commit; last_seen is ignored."),
    "C13": ("exploration", "4/C13",
            "deterministic simulation: scripted server byte streams (grammar + corruptions) with seeded segmentation and end-of-stream faults (close_notify, FIN, RST, stall at any prefix) against the real client under a virtual clock; termination-deadline, faithfulness and baseline-differential oracles",
            "Seeded search over response streams x ends x entry points (protocol classes on a plain connection, GeminiClient.get/upload over TLS); the call must end by a deadline derived from when the server's last action reached the client (or the timeout), with a faithful response or an Exception, independent of segmentation.",
            "1 s virtual slack; grammar grey zones and FIN-without-close_notify are three-valued."),
    "C14": ("exploration", "4/C14",
            "deterministic simulation with storage fault injection: real FileUploadHandler (direct and through the protocol) on a generated tree with symlinks, file-operation fault seam (torn writes, EACCES, failing mkdir/replace); before/after snapshot diff against a permitted-change model",
            "Seeded search over paths, sizes, tokens, media types, delete switch and fault plans; a 2x must correspond to exactly one permitted file change with exactly the declared bytes inside the upload directory, a non-2x to no file change at all.",
            "New empty directories after a failed request are tolerated; the seam covers builtins.open/io.open/os.replace/rename/unlink/mkdir."),
    "C16": ("exploration", "4/C16",
            "deterministic simulation: real GeminiClient against scripted TLS servers serving seeded redirect graphs; graph-walk reference model, connection counting by the simulated network",
            "Seeded graphs (chains, cycles, self-loops, cross-host hops, grey targets) x max_redirects 0-6 x follow on/off x pinned-certificate mismatches on hops; connection bound, request-line schemes, result class and per-hop pin verification are checked against a walk of the graph.",
            "Relative / non-gemini / malformed targets are grey (3x handed back or error); only requesting them is forbidden."),
    "C18": ("exploration", "4/C18",
            "deterministic simulation: downstream raw peer -> real proxy (ProxyHandler + real client) -> scripted faulty upstream, seeded fault injection at every stage under a virtual clock; verbatim-or-43 classification oracle",
            "Seeded search over upstream behaviours (all status classes, charsets, binary, oversized, redirects; refuse, black hole, plaintext, close/RST/stall at each stage) x location timeouts x assemblies (bare protocol, start_server on both TLS backends) x downstream peers that wait or leave; one well-formed response, verbatim or 43 as mandated, within the bound, one upstream connection.",
            "1 s virtual slack; unclean upstream end after a complete response is three-valued."),
    "C04": ("exploration", "4/C04",
            "deterministic simulation: real MiddlewareChain with real and scripted components behind recorder wrappers, happens-before oracle over recorder/spy logs and directory snapshots",
            "Seeded search over chain shapes, component outcomes (allow/deny/raise/slow), gemini and titan requests, peer addresses and client certificates, with the chain's completion interleaved against content arrival, the request timer and peer disconnects; plus start_server()'s own chain assembly on both TLS backends.",
            "Recorder wrappers are harness code around each component; expected decisions for the start_server share come from deliberately simple configurations."),
    "C06": ("exploration", "4/C06",
            "deterministic simulation: backend differential (stdlib TLS vs PyOpenSSL) of the same body under seeded reader behaviour, socket buffer sizes and ciphertext cuts; byte-equality oracle",
            "Seeded search over body sizes (dense at TLS-record and buffer boundaries, up to 1 MiB quick / 8 MiB thorough), contents, sources (scripted handler, StaticFileHandler, start_server) and readers (eager, slow, bursty) on both TLS backends; the decrypted stream must equal header+body and both backends must agree.",
            "Readers needing more than 30 s hit asyncio's ssl_shutdown_timeout on the stdlib backend: recorded as an open known finding, explored as a separate rare population."),
    "C07": ("exploration", "4/C07",
            "deterministic simulation: differential of one-read baseline vs seeded segmentation (write pieces = TLS records, network cuts, delays) of identical client bytes; at-most-once invocation counter",
            "Seeded search over request shapes and cut sets (random, 1-byte dribble, pinned to CR|LF, the size-th Titan byte, byte 1024) in plain, stdlib-TLS and PyOpenSSL mode with spy and real upload handlers; response bytes, handler arguments and upload directory must equal the unsegmented baseline and handlers run at most once per connection.",
            "No deadline is crossed by the segmentation itself; close() with unread data is modelled as FIN."),
    "C10": ("exploration", "4/C10",
            "deterministic simulation: real RateLimiter + clean-up task under a virtual clock, seeded arrival histories, exact-rational token-bucket reference model checked step by step",
            "Seeded search over arrival histories (bursts, slow refills, idles spanning several clean-up periods, concurrent tasks, wire mode through the real protocol) with every decision compared against an exact token-bucket model without clean-up, plus the window bound over the recorded history. Evidence over the seeds explored, not a proof.",
            "Trusts the simulator's virtual clock (time.monotonic patched) and the reference model; float-vs-exact grey zone of 1e-9 around the threshold."),
    "C15": ("fault_enumeration", "4/C15",
            "deterministic simulation with fault enumeration: stall injected after every plaintext byte offset (6 request shapes, two of them non-ASCII, x 3 transport modes) and every ciphertext byte offset of the handshake flights (2 TLS backends) under virtual time, plus seeded timer-vs-data races",
            "Every stall point of the enumerated space is executed (32212 cases: 16080 plaintext and 3040 ciphertext stall points, the 12600 Titan stall points again behind an allowing middleware chain and 492 behind a refusing one; a quarter of them from an IPv6 peer), then seeded runs race the request timer against late data at T-e/T/T+e, slow handlers and middleware up to 5xT, dribbling peers and disconnects; the close deadline, the single 40 response and the absence of a timeout after a complete request are checked.",
            "T_handshake = 60 s demanded of both backends; virtual clock; e = 50 ms slack."),
}

NOT_APPLICABLE = {
    "C02": "pure function of (request path, static document tree) evaluated in one synchronous step: no schedule, clock, fault, crash point or history for a simulator to control; input generation alone would not be deterministic simulation",
    "C05": "admit/deny is a pure function of (rule list, path spelling, presented certificate); nothing the simulator owns (order, time, faults, history) can change the outcome",
    "C08": "accept/reject of a request line is a pure function of its bytes (independence from read segmentation is C07, which is claimed)",
    "C09": "decision is integer arithmetic on (lists, default policy, address) plus a configuration-loading step; no time, state or interleaving involved",
    "C17": "upstream (host, port, request line) is a pure function of (proxy configuration, request URL); the faults and timing of the same code path are C18, which is claimed",
    "C19": "URL normalisation is a pure string function; idempotence and round trip are input properties without schedule, clock or fault",
    "C20": "the protocol floor is a context setting enforced inside OpenSSL identically for every schedule; refusing plaintext is a function of the first bytes received - a configuration matrix, not a simulation target",
}

def main():
    checks = []
    for pid in sorted(CLAIMED):
        level, sec, tech, text, note = CLAIMED[pid]
        checks.append({
            "property_id": pid,
            "quick_cmd": f"./check {pid} --tier quick",
            "thorough_cmd": f"./check {pid} --tier thorough",
            "evidence_file": f"/verif/evidence/{pid}.json",
            "replay_cmd_template": "./check replay {path}",
            "engine": "nauyaca-dst",
            "level_claimed": {"category": level, "text": text, "design_ref": f"DESIGN.md section {sec}"},
            "level_note": note,
            "technique": tech,
        })
    man = {
        "version": 1,
        "setup_cmd": "./setup.sh",
        "hooks": {
            "guard": "NAUYACA_VERIF",
            "enable": "no hook in /repo is needed: every seam (event loop, sockets, selector, clock, sqlite3.connect, file I/O) is injected from outside by the simulator; checks import /repo/src of the current working tree directly",
            "baseline_off_cmd": "cd /repo && /venv/bin/python -m pytest -ra -q -p no:cacheprovider --timeout=900 --continue-on-collection-errors",
            "source_commits": [],
            "add_only": True,
        },
        "engines": [{
            "name": "nauyaca-dst",
            "path": "/verif/sim",
            "serves_properties": sorted(CLAIMED),
            "kind_free_text": "deterministic simulation with fault injection: the real nauyaca code and the real asyncio selector transports / sslproto / OpenSSL / sqlite3 run on a fake kernel (sockets, selector, clock, DNS, crash points) driven by one seeded choice tape; own ddmin tape shrinker; replay files",
        }],
        "checks": checks,
        "not_applicable": [{"property_id": k, "reason": v} for k, v in sorted(NOT_APPLICABLE.items())],
        "notes": "Exit codes of ./check: 0 held (possibly after KNOWN-FINDING lines), 1 VIOLATION, 2 HARNESS-ERROR (never reported as a pass or as a violation). VERIF_SEED (default 1) and VERIF_TIER are honoured. Known findings: /verif/known_findings.json (never written at run time).",
    }
    with open(os.path.join(HERE, "MANIFEST.json"), "w") as f:
        json.dump(man, f, indent=1)
    print("MANIFEST.json written:", len(checks), "checks")

if __name__ == "__main__":
    main()
