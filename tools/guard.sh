#!/bin/sh
# False-alarm guard: behaviour-preserving refactors of /repo/src (guard/*.diff) must
# leave every relevant check silent.  Usage: tools/guard.sh
cd "$(dirname "$0")/.." || exit 2
rc=0
for r in guard/*.diff; do
  case "$r" in
    *R1_*) C="C01 C06 C07 C15 C18 C04";; *R2*) C="C10 C04 C01 C15";; *R3*) C="C01 C07 C15 C14 C04";;
    *R4*) C="C03 C11 C12 C16";; *R5*) C="C14 C07";; *R6*) C="C06 C01 C15";; *R7*) C="C13 C16 C18 C03 C11";;
    *R8*) C="C10 C04";; *R9*) C="C04 C07";; *R10*) C="C03 C11 C16 C13 C18";;
    *) C="C01";;
  esac
  echo "##### $r"
  tools/eval_mutant.sh "$r" $C > /dev/shm/guard.$$ 2>&1 || rc=1
  grep -E "^== |violation key|HARNESS" /dev/shm/guard.$$ | cut -c1-200; rm -f /dev/shm/guard.$$
done
exit $rc
