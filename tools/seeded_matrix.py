#!/usr/bin/env python3
"""Run every seeded change against the check of its own property (and extra
checks given per id) and record which checks catch it in meta.json.
Usage: tools/seeded_matrix.py [id ...]"""
import json, os, subprocess, sys
HERE = os.path.dirname(os.path.dirname(os.path.abspath(__file__)))
EXTRA = {"C01-A": ["C15"], "C03-B": ["C11"], "C15-A": ["C01"], "C16-B": ["C03", "C11"],
         "C18-A": ["C13"], "C18-B": ["C15"], "C01-E": ["C18", "C13"], "C01-F": ["C06"],
         "C03-E": ["C12"], "C06-E": ["C07"], "C06-F": ["C13"], "C07-F": ["C15"], "C11-F": ["C03"],
         "C16-F": ["C11"], "C18-F": ["C13"], "C18-D": ["C13"],
         "C03-H": ["C16", "C11"], "C13-H": ["C18"], "C15-H": ["C07"], "C16-H": ["C03"],
         "C18-I": ["C13"], "C06-I": ["C15"], "C16-I": ["C03"], "C11-J": ["C03"], "C13-J": ["C18"],
         "C01-I": ["C15"], "C18-J": ["C13"], "C03-J": ["C11"],
         "C06-L": ["C13", "C18"], "C01-T": ["C15"], "C11-S": ["C03"], "C04-T": ["C10"], "C07-S": ["C06"], "C14-S": ["C07"], "C04-Q": ["C10"], "C06-Q": ["C13", "C18"], "C11-Q": ["C03"], "C04-R": ["C07"],
         "C03-R": ["C11"], "C16-R": ["C03"], "C04-P": ["C10"], "C15-P": ["C07"], "C06-O": ["C07", "C15"], "C10-P": ["C04"],
         "C16-O": ["C03", "C11"], "C16-P": ["C13"], "C11-O": ["C03"], "C01-O": ["C15"], "C01-P": ["C15"], "C14-M": ["C04", "C07"], "C14-N": ["C04"], "C03-N": ["C11"], "C16-M": ["C03"],
         "C06-M": ["C07"], "C03-M": ["C12"], "C11-N": ["C03"], "C06-K": ["C07"], "C16-L": ["C13"], "C13-K": ["C03"], "C18-K": ["C13"],
         "C04-U": ["C10"], "C16-V": ["C11"], "C12-U": ["C03"], "C07-U": ["C14"], "C10-V": ["C04"], "C11-U": ["C03"], "C06-U": ["C13"], "C04-V": ["C10"]}
ids = sys.argv[1:] or sorted(d for d in os.listdir(os.path.join(HERE, "seeded"))
                             if os.path.isdir(os.path.join(HERE, "seeded", d)))
rows = []
for sid in ids:
    d = os.path.join(HERE, "seeded", sid)
    meta = json.load(open(os.path.join(d, "meta.json")))
    checks = [meta["property"]] + EXTRA.get(sid, [])
    caught, keys = [], {}
    for c in checks:
        p = subprocess.run([os.path.join(HERE, "tools", "eval_mutant.sh"),
                            os.path.join(d, "patch.diff"), c], capture_output=True, text=True)
        out = p.stdout
        rc = [l for l in out.splitlines() if l.startswith("== ")]
        ok = any("exit=1" in l for l in rc)
        if ok:
            caught.append(c)
            keys[c] = [l.split("violation key=")[1].split(":")[0] for l in out.splitlines()
                       if l.startswith("violation key=")][:4]
        if "exit=2" in " ".join(rc):
            keys[c] = ["HARNESS-ERROR"]
    meta["caught_by"] = caught
    meta["violation_keys"] = keys
    meta["evaluated_with"] = "tools/eval_mutant.sh (quick tier, VERIF_SEED=1) on a scratch copy of /repo/src with the patch applied"
    json.dump(meta, open(os.path.join(d, "meta.json"), "w"), indent=1)
    rows.append((sid, caught, keys))
    print(sid, "caught by", caught or "NOBODY", flush=True)
