#!/bin/sh
# Another soak under a different VERIF_SEED (the seeds of all runs change with it).
# Usage: tools/soak_seed.sh <seed> [workers] [multiple]
S="${1:-2}"; W="${2:-12}"; M="${3:-4}"
cd "$(dirname "$0")/.." || exit 2
rc=0
for PN in C06:12000 C10:12000 C14:30000 C03:3000 C13:5000 C11:2500 C16:3000 C07:20000 C15:52212 C12:8000 C18:4000 C04:40000 C01:15000; do
  P=${PN%%:*}; N=$(( ${PN##*:} * M ))
  echo "=== $P seed=$S runs=$N $(date +%T)"
  VERIF_SEED=$S VERIF_WORKERS=$W ./check "$P" --tier thorough --runs "$N" > "/dev/shm/soaks.$$.log" 2>&1; e=$?
  grep -v "^fired:" "/dev/shm/soaks.$$.log" | tail -8; rm -f "/dev/shm/soaks.$$.log"
  echo "=== $P exit=$e"
  [ $e -eq 0 ] || rc=1
done
exit $rc
