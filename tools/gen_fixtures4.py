"""More committed fixtures (run ONCE): a private CA and three leaf certificates it
issued for the simulated host names (all three pass CA + host-name validation, so a
swap between them is a *changed* certificate that a CA-verifying client still accepts
at the TLS layer - only the pin can tell them apart)."""
import datetime, os, base64, textwrap
from cryptography import x509
from cryptography.hazmat.primitives import hashes, serialization
from cryptography.hazmat.primitives.asymmetric import rsa
from cryptography.x509.oid import NameOID
out = os.path.join(os.path.dirname(os.path.dirname(os.path.abspath(__file__))), "fixtures")
utc = datetime.timezone.utc
NB, NA = datetime.datetime(2020, 1, 1, tzinfo=utc), datetime.datetime(2120, 1, 1, tzinfo=utc)
HOSTS = ["alpha.sim", "beta.sim", "gamma.sim", "srv.sim", "h0.sim", "h1.sim", "h2.sim"]


def dump(name, cert, key):
    der = cert.public_bytes(serialization.Encoding.DER)
    kp = key.private_bytes(serialization.Encoding.PEM, serialization.PrivateFormat.PKCS8, serialization.NoEncryption())
    b = base64.b64encode(der).decode()
    pem = ("-----BEGIN CERTIFICATE-----\n" + "\n".join(textwrap.wrap(b, 64)) + "\n-----END CERTIFICATE-----\n").encode()
    for ext, data in ((".crt", pem), (".key", kp), (".der", der)):
        p = os.path.join(out, name + ext)
        assert not os.path.exists(p), p
        open(p, "wb").write(data)


cakey = rsa.generate_private_key(65537, 2048)
caname = x509.Name([x509.NameAttribute(NameOID.COMMON_NAME, "nauyaca-verif simulation CA")])
ca = (x509.CertificateBuilder().subject_name(caname).issuer_name(caname).public_key(cakey.public_key())
      .serial_number(1).not_valid_before(NB).not_valid_after(NA)
      .add_extension(x509.BasicConstraints(ca=True, path_length=0), critical=True)
      .add_extension(x509.KeyUsage(digital_signature=True, key_cert_sign=True, crl_sign=True,
                                   content_commitment=False, key_encipherment=False,
                                   data_encipherment=False, key_agreement=False,
                                   encipher_only=False, decipher_only=False), critical=True)
      .add_extension(x509.SubjectKeyIdentifier.from_public_key(cakey.public_key()), critical=False)
      .sign(cakey, hashes.SHA256()))
dump("simca", ca, cakey)
for i in (1, 2, 3):
    key = rsa.generate_private_key(65537, 2048)
    subj = x509.Name([x509.NameAttribute(NameOID.COMMON_NAME, "alpha.sim")])
    cert = (x509.CertificateBuilder().subject_name(subj).issuer_name(caname).public_key(key.public_key())
            .serial_number(100 + i).not_valid_before(NB).not_valid_after(NA)
            .add_extension(x509.BasicConstraints(ca=False, path_length=None), critical=True)
            .add_extension(x509.SubjectAlternativeName([x509.DNSName(h) for h in HOSTS]), critical=False)
            .add_extension(x509.AuthorityKeyIdentifier.from_issuer_public_key(cakey.public_key()), critical=False)
            .add_extension(x509.ExtendedKeyUsage([x509.oid.ExtendedKeyUsageOID.SERVER_AUTH]), critical=False)
            .sign(cakey, hashes.SHA256()))
    dump(f"caleaf{i}", cert, key)
print("ok")
