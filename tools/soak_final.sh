#!/bin/sh
# Final soak: every claimed check at thorough-tier settings with a fixed multiple of the
# quick tier's run count (so that all thirteen finish within about an hour).
# Usage: tools/soak_final.sh [workers] [multiple]
W="${1:-12}"; M="${2:-8}"
cd "$(dirname "$0")/.." || exit 2
rc=0
for PN in C03:3000 C10:12000 C13:5000 C11:2500 C16:3000 C06:12000 C07:20000 C14:30000 C15:52212 C12:8000 C18:4000 C04:40000 C01:15000; do
  P=${PN%%:*}; N=$(( ${PN##*:} * M ))
  echo "=== $P thorough-settings runs=$N $(date +%T)"
  VERIF_WORKERS=$W ./check "$P" --tier thorough --runs "$N" > "/dev/shm/soakf.$$.log" 2>&1; e=$?
  grep -v "^fired:" "/dev/shm/soakf.$$.log" | tail -8; rm -f "/dev/shm/soakf.$$.log"
  echo "=== $P exit=$e"
  [ $e -eq 0 ] || rc=1
done
exit $rc
