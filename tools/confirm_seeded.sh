#!/bin/sh
# Confirm a seeded change produced in a scratch worktree and evaluate the checks on it.
#   tools/confirm_seeded.sh <worktree> <A|B> <Cxx> [more checks...]
# 1. patch applies to the pristine worktree; 2. the project's tests pass with it;
# 3. the demo fails with it and passes without it; 4. run the given checks on it.
WT="$1"; V="$2"; shift 2
PID="$1"
cd "$WT" || exit 2
git checkout -q -- src 2>/dev/null
P="$WT/patch_$V.diff"; D="$WT/demo_$V.py"
[ -f "$P" ] && [ -f "$D" ] || { echo "MISSING patch or demo in $WT"; exit 2; }
git apply --check "$P" || { echo "PATCH-DOES-NOT-APPLY"; exit 2; }
PYTHONPATH="$WT/src" timeout 120 /venv/bin/python "$D" >/dev/null 2>&1; d0=$?
git apply "$P"
PYTHONPATH="$WT/src" timeout 900 /venv/bin/python -m pytest -q -p no:cacheprovider --timeout=900 -x > "$WT/tests_$V.log" 2>&1; t=$?
PYTHONPATH="$WT/src" timeout 120 /venv/bin/python "$D" > "$WT/demo_$V.log" 2>&1; d1=$?
git checkout -q -- src
echo "CONFIRM $PID/$V tests_with_change=$t demo_pristine=$d0 demo_with_change=$d1 ($(tail -1 "$WT/tests_$V.log"))"
[ $t -eq 0 ] && [ $d0 -eq 0 ] && [ $d1 -ne 0 ] || { echo "NOT-CONFIRMED $PID/$V"; exit 1; }
cd /verif && tools/eval_mutant.sh "$P" "$@"
