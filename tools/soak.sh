#!/bin/sh
# Thorough tier of every claimed check, one after the other (background soak).
# Usage: tools/soak.sh [workers] [props...]
W="${1:-8}"; shift
PROPS="${*:-C15 C06 C12 C14 C04 C07 C01 C16 C18 C11 C03 C13 C10}"
cd "$(dirname "$0")/.." || exit 2
for P in $PROPS; do
  echo "=== $P thorough $(date +%T)"
  VERIF_WORKERS=$W ./check "$P" --tier thorough 2>&1 | grep -v "^fired:" | tail -12
  echo "=== $P exit=$?"
done
