#!/bin/sh
# Thorough tier of every claimed check, one after the other (background soak).
# Usage: tools/soak.sh [workers] [props...]
W="${1:-8}"; shift
PROPS="${*:-C15 C06 C12 C14 C04 C07 C01 C16 C18 C11 C03 C13 C10}"
cd "$(dirname "$0")/.." || exit 2
rc=0
for P in $PROPS; do
  echo "=== $P thorough $(date +%T)"
  VERIF_WORKERS=$W ./check "$P" --tier thorough > "/dev/shm/soak.$$.log" 2>&1; e=$?
  grep -v "^fired:" "/dev/shm/soak.$$.log" | tail -12; rm -f "/dev/shm/soak.$$.log"
  echo "=== $P exit=$e"
  [ $e -eq 0 ] || rc=1
done
exit $rc
