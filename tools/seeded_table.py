#!/usr/bin/env python3
"""Print the markdown table of section 11 of DESIGN.md from seeded/*/meta.json.
With --write the table between the markers in DESIGN.md is replaced."""
import json, os, re, sys
HERE = os.path.dirname(os.path.dirname(os.path.abspath(__file__)))
rows = ["| id | round | change | needs | caught by | first violation key per check |",
        "|----|-------|--------|-------|-----------|-------------------------------|"]
n = caught = 0
for sid in sorted(os.listdir(os.path.join(HERE, "seeded"))):
    mp = os.path.join(HERE, "seeded", sid, "meta.json")
    if not os.path.isfile(mp):
        continue
    m = json.load(open(mp))
    n += 1
    cb = m.get("caught_by") or []
    own = m["property"] in cb
    caught += own
    keys = "; ".join(f"{c}: `{(m.get('violation_keys', {}).get(c) or ['?'])[0]}`" for c in cb)
    rows.append(f"| {sid} | {m.get('round', '?')} | {m['change']} | {m['needs_to_manifest']} | "
                f"{', '.join(cb) if cb else '**none** (see above)'} | {keys} |")
table = "\n".join(rows)
print(f"{caught} of {n} caught by their own property's check", file=sys.stderr)
if "--write" in sys.argv:
    p = os.path.join(HERE, "DESIGN.md")
    s = open(p).read()
    a, b = "<!-- seeded-table:begin -->", "<!-- seeded-table:end -->"
    assert a in s and b in s
    s = s[:s.index(a) + len(a)] + "\n" + table + "\n" + s[s.index(b):]
    open(p, "w").write(s)
else:
    print(table)
