#!/bin/sh
# Evaluate a source patch against one or more checks WITHOUT touching /repo:
#   tools/eval_mutant.sh <patch.diff> <Cxx> [<Cyy> ...]      (env RUNS=<n> optional)
# A scratch copy of /repo/src is made under /dev/shm, the patch is applied
# there, the checks run with VERIF_SRC pointing at it, and the copy is removed.
PATCH="$(readlink -f "$1")"; shift
HERE="$(cd "$(dirname "$0")/.." && pwd)"
D="$(mktemp -d /dev/shm/nauyaca-mut-XXXXXX)"
trap 'rm -rf "$D"' EXIT
mkdir -p "$D/repo" && cp -r /repo/src "$D/repo/src"
( cd "$D/repo" && patch -p1 --quiet < "$PATCH" ) || { echo "PATCH-FAILED $PATCH"; exit 3; }
rc_all=0
for P in "$@"; do
  if [ -n "$RUNS" ]; then EXTRA="--runs $RUNS"; else EXTRA=""; fi
  VERIF_SRC="$D/repo/src" VERIF_EVIDENCE_DIR="$D/evidence" VERIF_REPLAY_DIR="$D/replays" \
    "$HERE/check" "$P" $EXTRA > "$D/out.txt" 2>&1
  rc=$?
  echo "== $P exit=$rc"
  grep -E "^(violation key|VIOLATION|HARNESS-ERROR|KNOWN-FINDING)" "$D/out.txt" | cut -c1-220 | head -8
  [ $rc -ne 0 ] && rc_all=$rc
done
exit $rc_all
