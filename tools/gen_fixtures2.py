"""Additional committed fixtures (run ONCE): an expired server certificate and two
client certificates with the SAME subject but different keys."""
import datetime, os, base64, textwrap
from cryptography import x509
from cryptography.hazmat.primitives import hashes, serialization
from cryptography.hazmat.primitives.asymmetric import rsa
from cryptography.x509.oid import NameOID
out = os.path.join(os.path.dirname(os.path.dirname(os.path.abspath(__file__))), "fixtures")
def make(name, cn, nb, na):
    key = rsa.generate_private_key(65537, 2048)
    subj = x509.Name([x509.NameAttribute(NameOID.COMMON_NAME, cn)])
    cert = (x509.CertificateBuilder().subject_name(subj).issuer_name(subj).public_key(key.public_key())
            .serial_number(x509.random_serial_number()).not_valid_before(nb).not_valid_after(na)
            .add_extension(x509.SubjectAlternativeName([x509.DNSName(cn)]), critical=False)
            .sign(key, hashes.SHA256()))
    der = cert.public_bytes(serialization.Encoding.DER)
    kp = key.private_bytes(serialization.Encoding.PEM, serialization.PrivateFormat.PKCS8, serialization.NoEncryption())
    b = base64.b64encode(der).decode()
    pem = ("-----BEGIN CERTIFICATE-----\n" + "\n".join(textwrap.wrap(b, 64)) + "\n-----END CERTIFICATE-----\n").encode()
    for ext, data in ((".crt", pem), (".key", kp), (".der", der)):
        p = os.path.join(out, name + ext)
        assert not os.path.exists(p), p
        open(p, "wb").write(data)
utc = datetime.timezone.utc
make("expired1", "expired1.sim", datetime.datetime(2000, 1, 1, tzinfo=utc), datetime.datetime(2001, 1, 1, tzinfo=utc))
make("cli_same1", "client", datetime.datetime(2020, 1, 1, tzinfo=utc), datetime.datetime(2120, 1, 1, tzinfo=utc))
make("cli_same2", "client", datetime.datetime(2020, 1, 1, tzinfo=utc), datetime.datetime(2120, 1, 1, tzinfo=utc))
print("ok")
