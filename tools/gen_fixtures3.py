"""More committed fixtures (run ONCE): two self-signed server certificates with the SAME
issuer/subject name and the SAME serial number but different keys."""
import datetime, os, base64, textwrap
from cryptography import x509
from cryptography.hazmat.primitives import hashes, serialization
from cryptography.hazmat.primitives.asymmetric import rsa
from cryptography.x509.oid import NameOID
out = os.path.join(os.path.dirname(os.path.dirname(os.path.abspath(__file__))), "fixtures")
utc = datetime.timezone.utc
SERIAL = 0x1234567890ABCDEF
for name in ("clone_a", "clone_b"):
    key = rsa.generate_private_key(65537, 2048)
    subj = x509.Name([x509.NameAttribute(NameOID.COMMON_NAME, "clone.sim")])
    cert = (x509.CertificateBuilder().subject_name(subj).issuer_name(subj).public_key(key.public_key())
            .serial_number(SERIAL).not_valid_before(datetime.datetime(2020, 1, 1, tzinfo=utc))
            .not_valid_after(datetime.datetime(2120, 1, 1, tzinfo=utc))
            .add_extension(x509.SubjectAlternativeName([x509.DNSName("clone.sim")]), critical=False)
            .sign(key, hashes.SHA256()))
    der = cert.public_bytes(serialization.Encoding.DER)
    kp = key.private_bytes(serialization.Encoding.PEM, serialization.PrivateFormat.PKCS8, serialization.NoEncryption())
    b = base64.b64encode(der).decode()
    pem = ("-----BEGIN CERTIFICATE-----\n" + "\n".join(textwrap.wrap(b, 64)) + "\n-----END CERTIFICATE-----\n").encode()
    for ext, data in ((".crt", pem), (".key", kp), (".der", der)):
        p = os.path.join(out, name + ext)
        assert not os.path.exists(p), p
        open(p, "wb").write(data)
print("ok")
