"""Generate the committed certificate fixtures (run ONCE; never at check time).

RSA-2048 / Ed25519 keys give fixed-length signatures, so TLS flight lengths are
a function of the tape (exact replay).  EC P-256 is only used cut-free.
`bad*` certificates are served by OpenSSL but rejected by cryptography's X.509
parser (critical BOOLEAN encoded as 0x01 instead of 0xFF: valid BER, not DER).
"""
import datetime, sys, os
from cryptography import x509
from cryptography.hazmat.primitives import hashes, serialization
from cryptography.hazmat.primitives.asymmetric import rsa, ed25519, ec
from cryptography.x509.oid import NameOID

out = os.path.join(os.path.dirname(os.path.dirname(os.path.abspath(__file__))), "fixtures")
os.makedirs(out, exist_ok=True)
NB = datetime.datetime(2020, 1, 1, tzinfo=datetime.timezone.utc)
NA = datetime.datetime(2120, 1, 1, tzinfo=datetime.timezone.utc)

def make(name, kind, cn, critical_bc=False):
    if kind == "rsa":
        key = rsa.generate_private_key(65537, 2048)
        alg = hashes.SHA256()
    elif kind == "ed":
        key = ed25519.Ed25519PrivateKey.generate()
        alg = None
    else:
        key = ec.generate_private_key(ec.SECP256R1())
        alg = hashes.SHA256()
    subj = x509.Name([x509.NameAttribute(NameOID.COMMON_NAME, cn)])
    b = (x509.CertificateBuilder().subject_name(subj).issuer_name(subj)
         .public_key(key.public_key()).serial_number(x509.random_serial_number())
         .not_valid_before(NB).not_valid_after(NA)
         .add_extension(x509.SubjectAlternativeName([x509.DNSName(cn)]), critical=False))
    if critical_bc:
        b = b.add_extension(x509.BasicConstraints(ca=False, path_length=None), critical=True)
    cert = b.sign(key, alg)
    der = cert.public_bytes(serialization.Encoding.DER)
    kp = key.private_bytes(serialization.Encoding.PEM, serialization.PrivateFormat.PKCS8,
                           serialization.NoEncryption())
    return der, kp

def pem(der):
    import base64, textwrap
    b = base64.b64encode(der).decode()
    return ("-----BEGIN CERTIFICATE-----\n" + "\n".join(textwrap.wrap(b, 64)) +
            "\n-----END CERTIFICATE-----\n").encode()

def write(name, der, kp):
    open(os.path.join(out, name + ".crt"), "wb").write(pem(der))
    open(os.path.join(out, name + ".key"), "wb").write(kp)
    open(os.path.join(out, name + ".der"), "wb").write(der)

for name, kind in [("rsa1","rsa"),("rsa2","rsa"),("rsa3","rsa"),("rsa4","rsa"),
                   ("ed1","ed"),("ed2","ed"),("ec1","ec"),
                   ("cli_rsa1","rsa"),("cli_rsa2","rsa"),("cli_ed1","ed")]:
    der, kp = make(name, kind, name + ".sim")
    write(name, der, kp)

for name, kind in [("bad1","rsa"),("bad2","ed")]:
    der, kp = make(name, kind, name + ".sim", critical_bc=True)
    # critical TRUE is encoded 01 01 FF directly after the extnID OID 2.5.29.19
    needle = bytes.fromhex("0603551d13") + bytes.fromhex("0101ff")
    assert der.count(needle) == 1, der.count(needle)
    bad = der.replace(needle, bytes.fromhex("0603551d13") + bytes.fromhex("010101"))
    try:
        x509.load_der_x509_certificate(bad).extensions
        print("WARNING: cryptography accepted", name)
    except Exception as e:
        print(name, "rejected by cryptography:", type(e).__name__, str(e)[:80])
    write(name, bad, kp)
print("ok")
