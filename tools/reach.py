#!/venv/bin/python
"""Reach measurement: which lines of the library does the simulated workload execute?
Runs N quick-tier run indices of each claimed check in-process under coverage.py and
prints, per source file, the lines never executed by ANY check (blind spots to look at).
Usage: tools/reach.py [N] [Cxx ...]      (writes reach/REACH.json + reach/<file>.missing)"""
import json, os, sys
HERE = os.path.dirname(os.path.dirname(os.path.abspath(__file__)))
sys.path.insert(0, HERE)
os.environ.setdefault("PYTHONHASHSEED", "0")
os.environ["VERIF_TIER_EFFECTIVE"] = "quick"
import coverage  # noqa
from sim.world import prepare_process, REPO_SRC  # noqa
args = sys.argv[1:]
N = int(args[0]) if args and args[0].isdigit() else 300
props = [a for a in args if not a.isdigit()] or \
    ["C01", "C03", "C04", "C06", "C07", "C10", "C11", "C12", "C13", "C14", "C15", "C16", "C18"]
cov = coverage.Coverage(source=[os.path.join(REPO_SRC, "nauyaca")], branch=False, data_file=None)
cov.start()
prepare_process()
from sim.runner import load_prop, execute, run_seed_for  # noqa
for pid in props:
    mod = load_prop(pid)
    idxs = list(range(N))
    if pid == "C15":
        ne = mod.NENUM
        idxs = list(range(0, ne, max(1, ne // N)))[:N] + list(range(ne, ne + N))
    for idx in idxs:
        execute(mod, seed=run_seed_for(1, pid, "quick", idx), idx=idx, run_cap=300)
    print("ran", pid, len(idxs), flush=True)
cov.stop()
out = os.path.join(HERE, "reach")
os.makedirs(out, exist_ok=True)
summary = {}
data = cov.get_data()
for f in sorted(data.measured_files()):
    rel = os.path.relpath(f, REPO_SRC)
    _, stmts, _, missing, _ = cov.analysis2(f)
    summary[rel] = {"statements": len(stmts), "missing": len(missing),
                    "covered_pct": round(100.0 * (len(stmts) - len(missing)) / max(1, len(stmts)), 1)}
    src = open(f).read().splitlines()
    with open(os.path.join(out, rel.replace("/", "_") + ".missing"), "w") as fh:
        for ln in missing:
            fh.write(f"{ln}: {src[ln - 1]}\n")
json.dump({"runs_per_check": N, "checks": props, "files": summary}, open(os.path.join(out, "REACH.json"), "w"), indent=1)
for rel, s in summary.items():
    print(f"{s['covered_pct']:5.1f}%  {s['missing']:4d}/{s['statements']:4d} missing  {rel}")
